//! S5 — the likely-subtags tables on simulated machines other than the host: **big-endian**
//! (s390x) and **32-bit** (i686).
//!
//! The tables are integers that spell ASCII subtags in little-endian byte order, and the lookup
//! turns them into subtags with `unsafe … from_raw_unchecked` ("safe because all table entries are
//! well formed"). Whether that holds is a property of the bytes the constructors see, i.e. of the
//! target's byte order as much as of the integers. This program looks rows of the compiled tables
//! (read through the cfg(unic_locale_verif) hook) up through the real `likelysubtags::maximize`
//! and compares what comes back — as text — with the row decoded independently (shift and mask, no
//! byte-order-dependent operation). It is run under Miri for a big-endian target and for a 32-bit
//! target (a lookup that computes in `usize` — a hash index frozen by the 64-bit generator host —
//! finds nothing there: seeded `m37`).
//!
//!   becheck <stride>      look up every <stride>-th row of every table (first and last always)
//!
//! Output: one `BE-MISMATCH …` line per wrong row, then `BE-ROWS looked_up=N wrong=M endian=…`.

use unic_langid_impl::likelysubtags as ls;
use unic_langid_impl::subtags::{Language, Region, Script};

/// How the library packs a subtag's ASCII text into its integer form, per subtag type, learnt
/// from the library's own *safe* conversions on a few asymmetric samples: little-endian (byte i
/// of the text is bits 8i..8i+8: the pinned form) or big-endian over the type's width (control
/// `s7`: a consistent change of representation must not be reported). Anything else: S5 has no
/// independent decoding and says so instead of guessing.
#[derive(Clone, Copy, PartialEq, Debug)]
enum Order {
    Le,
    Be,
}
#[derive(Clone, Copy, Debug)]
struct Conv {
    lang: Order,
    script: Order,
    region: Order,
}

fn pack(text: &str, width: usize, o: Order) -> u64 {
    let mut v: u64 = 0;
    for (i, b) in text.bytes().enumerate() {
        let shift = match o {
            Order::Le => 8 * i,
            Order::Be => 8 * (width - 1 - i),
        };
        v |= (b as u64) << shift;
    }
    v
}

fn conv() -> Option<Conv> {
    let order = |samples: &[(&str, u64)], width: usize| -> Option<Order> {
        for o in [Order::Le, Order::Be] {
            if samples.iter().all(|(t, v)| pack(t, width, o) == *v) {
                return Some(o);
            }
        }
        None
    };
    let lang = |t: &str| -> Option<u64> { Into::<Option<u64>>::into(Language::from_bytes(t.as_bytes()).ok()?) };
    let script = |t: &str| -> Option<u64> { Some(u32::from(Script::from_bytes(t.as_bytes()).ok()?) as u64) };
    let region = |t: &str| -> Option<u64> { Some(u32::from(Region::from_bytes(t.as_bytes()).ok()?) as u64) };
    Some(Conv {
        lang: order(&[("en", lang("en")?), ("abq", lang("abq")?), ("tlhxyzab", lang("tlhxyzab")?)], 8)?,
        script: order(&[("Latn", script("Latn")?), ("Arab", script("Arab")?)], 4)?,
        region: order(&[("US", region("US")?), ("419", region("419")?)], 4)?,
    })
}

static CONV: std::sync::OnceLock<Conv> = std::sync::OnceLock::new();

/// ASCII bytes unpacked from an integer of `width` bytes packed in order `o`
fn unpack_as(v: u64, width: usize, o: Order) -> Option<String> {
    let mut s = String::new();
    let mut ended = false;
    for i in 0..width {
        let shift = match o {
            Order::Le => 8 * i,
            Order::Be => 8 * (width - 1 - i),
        };
        let b = ((v >> shift) & 0xff) as u8;
        if b == 0 {
            ended = true;
            continue;
        }
        if ended || !b.is_ascii_alphanumeric() {
            return None;
        }
        s.push(b as char);
    }
    if width < 8 && (v >> (8 * width)) != 0 {
        return None;
    }
    Some(s)
}
fn c() -> Conv {
    *CONV.get().expect("byte convention decided at start-up")
}
fn unpack_lang(v: u64) -> Option<String> {
    // the bare `und` key is written out by the generator as the little-endian bytes of "und"
    if v == 0x64_6e_75 {
        return Some("und".into());
    }
    unpack_as(v, 8, c().lang)
}
fn unpack_script(v: u32) -> Option<String> {
    unpack_as(v as u64, 4, c().script)
}
fn unpack_region(v: u32) -> Option<String> {
    unpack_as(v as u64, 4, c().region)
}

type V = (Option<u64>, Option<u32>, Option<u32>);
type Text = (String, Option<String>, Option<String>);

fn value_text(v: V) -> Option<Text> {
    Some((
        unpack_lang(v.0?)?,
        match v.1 {
            Some(x) => Some(unpack_script(x)?),
            None => None,
        },
        match v.2 {
            Some(x) => Some(unpack_region(x)?),
            None => None,
        },
    ))
}

fn well_formed(t: &Text) -> bool {
    let l = &t.0;
    let lang_ok = (2..=3).contains(&l.len()) || (5..=8).contains(&l.len());
    let lang_ok = lang_ok && l.bytes().all(|b| b.is_ascii_lowercase());
    let script_ok = t.1.as_ref().map_or(true, |s| {
        s.len() == 4 && s.as_bytes()[0].is_ascii_uppercase() && s.bytes().skip(1).all(|b| b.is_ascii_lowercase())
    });
    let region_ok = t.2.as_ref().map_or(true, |r| {
        (r.len() == 2 && r.bytes().all(|b| b.is_ascii_uppercase())) || (r.len() == 3 && r.bytes().all(|b| b.is_ascii_digit()))
    });
    lang_ok && script_ok && region_ok
}

struct Tally {
    looked_up: u64,
    wrong: u64,
}

fn probe(t: &mut Tally, table: &str, idx: usize, key: (Option<u64>, Option<u32>, Option<u32>), value: V) {
    // the key as subtags, built from its text the way a caller would build them
    let lang = match key.0 {
        Some(k) => match unpack_lang(k).and_then(|s| Language::from_bytes(s.as_bytes()).ok()) {
            Some(l) => l,
            None => return, // S3 of the main check reports undecodable keys
        },
        None => Language::default(),
    };
    let script = match key.1 {
        Some(k) => match unpack_script(k).and_then(|s| Script::from_bytes(s.as_bytes()).ok()) {
            Some(s) => Some(s),
            None => return,
        },
        None => None,
    };
    let region = match key.2 {
        Some(k) => match unpack_region(k).and_then(|s| Region::from_bytes(s.as_bytes()).ok()) {
            Some(r) => Some(r),
            None => return,
        },
        None => None,
    };
    let Some(expect) = value_text(value) else { return };
    t.looked_up += 1;
    let got: Option<Text> = ls::maximize(lang, script, region).map(|(l, s, r)| {
        (
            l.as_str().to_string(),
            s.map(|x| x.as_str().to_string()),
            r.map(|x| x.as_str().to_string()),
        )
    });
    let ok = match &got {
        Some(g) => *g == expect && well_formed(g),
        None => false,
    };
    if !ok {
        t.wrong += 1;
        if t.wrong <= 12 {
            println!(
                "BE-MISMATCH {}[{}] key=({:?},{:?},{:?}) lookup={:?} row={:?}",
                table,
                idx,
                key.0.and_then(unpack_lang),
                key.1.and_then(unpack_script),
                key.2.and_then(unpack_region),
                got,
                expect
            );
        }
    }
}



fn picks(n: usize, stride: usize) -> Vec<usize> {
    let mut v: Vec<usize> = (0..n).step_by(stride.max(1)).collect();
    if n > 0 && v.last() != Some(&(n - 1)) {
        v.push(n - 1);
    }
    v
}

fn main() {
    let stride: usize = std::env::args().nth(1).and_then(|s| s.parse().ok()).unwrap_or(1);
    match conv() {
        Some(c) => {
            let _ = CONV.set(c);
        }
        None => {
            // neither little- nor big-endian ASCII packing: no independent decoding here
            println!("BE-SKIP the library's integer form of subtags is neither little- nor big-endian ASCII packing");
            return;
        }
    }
    let mut t = Tally { looked_up: 0, wrong: 0 };
    let und: u64 = 0x64_6e_75; // "und", little-endian packed
    for i in picks(ls::LANG_ONLY.len(), stride) {
        let (k, v) = ls::LANG_ONLY[i];
        if k == und {
            continue; // by design not reachable
        }
        probe(&mut t, "LANG_ONLY", i, (Some(k), None, None), v);
    }
    for i in picks(ls::LANG_REGION.len(), stride.min(4)) {
        let (a, b, v) = ls::LANG_REGION[i];
        probe(&mut t, "LANG_REGION", i, (Some(a), None, Some(b)), v);
    }
    for i in picks(ls::LANG_SCRIPT.len(), stride.min(8)) {
        let (a, b, v) = ls::LANG_SCRIPT[i];
        probe(&mut t, "LANG_SCRIPT", i, (Some(a), Some(b), None), v);
    }
    for i in picks(ls::SCRIPT_REGION.len(), stride.min(4)) {
        let (a, b, v) = ls::SCRIPT_REGION[i];
        probe(&mut t, "SCRIPT_REGION", i, (None, Some(a), Some(b)), v);
    }
    for i in picks(ls::SCRIPT_ONLY.len(), stride.min(8)) {
        let (k, v) = ls::SCRIPT_ONLY[i];
        probe(&mut t, "SCRIPT_ONLY", i, (None, Some(k), None), v);
    }
    for i in picks(ls::REGION_ONLY.len(), stride.min(8)) {
        let (k, v) = ls::REGION_ONLY[i];
        probe(&mut t, "REGION_ONLY", i, (None, None, Some(k)), v);
    }
    // the direction tables: every script they list decides the direction on its own, every
    // right-to-left language is at least not left-to-right by default (what `contains()` on the
    // stored integers must give on this machine too)
    {
        use unic_langid_impl::verif_tables as lt;
        use unic_langid_impl::{CharacterDirection, LanguageIdentifier};
        let mut dir_probe = |table: &str, idx: usize, script: u32, want: CharacterDirection| {
            let Some(text) = unpack_script(script) else { return };
            let Ok(sc) = Script::from_bytes(text.as_bytes()) else { return };
            t.looked_up += 1;
            let li = LanguageIdentifier::from_parts(Language::default(), Some(sc), None, &[]);
            let got = li.character_direction();
            if got != want {
                t.wrong += 1;
                if t.wrong <= 12 {
                    println!("BE-MISMATCH {}[{}] script={} direction={:?} table-says={:?}", table, idx, text, got, want);
                }
            }
        };
        for (i, s) in lt::SCRIPTS_CHARACTER_DIRECTION_LTR.iter().enumerate() {
            dir_probe("SCRIPTS_CHARACTER_DIRECTION_LTR", i, *s, CharacterDirection::LTR);
        }
        for (i, s) in lt::SCRIPTS_CHARACTER_DIRECTION_RTL.iter().enumerate() {
            dir_probe("SCRIPTS_CHARACTER_DIRECTION_RTL", i, *s, CharacterDirection::RTL);
        }
        for (i, s) in lt::SCRIPTS_CHARACTER_DIRECTION_TTB.iter().enumerate() {
            dir_probe("SCRIPTS_CHARACTER_DIRECTION_TTB", i, *s, CharacterDirection::TTB);
        }
        for (i, l) in lt::LANGS_CHARACTER_DIRECTION_RTL.iter().enumerate() {
            let Some(text) = unpack_lang(*l) else { continue };
            let Ok(lang) = Language::from_bytes(text.as_bytes()) else { continue };
            // with an explicit right-to-left script the answer must be RTL whatever the language
            // default resolves to
            let Some(rtl) = lt::SCRIPTS_CHARACTER_DIRECTION_RTL.first().and_then(|s| unpack_script(*s)).and_then(|s| Script::from_bytes(s.as_bytes()).ok()) else { continue };
            t.looked_up += 1;
            let li = LanguageIdentifier::from_parts(lang, Some(rtl), None, &[]);
            if li.character_direction() != CharacterDirection::RTL {
                t.wrong += 1;
                if t.wrong <= 12 {
                    println!("BE-MISMATCH LANGS_CHARACTER_DIRECTION_RTL[{}] lang={} with an RTL script is {:?}", i, text, li.character_direction());
                }
            }
        }
    }
    println!(
        "BE-ROWS looked_up={} wrong={} endian={} width={}",
        t.looked_up,
        t.wrong,
        if cfg!(target_endian = "big") { "big" } else { "little" },
        usize::BITS
    );
    if t.wrong > 0 {
        std::process::exit(1);
    }
}
