#!/usr/bin/env python3
"""Run a program with its stdout connected to a NON-BLOCKING pipe and a reader
that starts late and reads slowly (what a node/python build wrapper looks like).
usage: nonblock_run.py <cwd> <outfile> <program> [args...]
Prints the child's exit status on the last line as 'STATUS <n>'."""
import fcntl, os, subprocess, sys, time

cwd, outfile, argv = sys.argv[1], sys.argv[2], sys.argv[3:]
r, w = os.pipe()
fl = fcntl.fcntl(w, fcntl.F_GETFL)
fcntl.fcntl(w, fcntl.F_SETFL, fl | os.O_NONBLOCK)   # O_NONBLOCK lives on the open file description: the child inherits it
p = subprocess.Popen(argv, cwd=cwd, stdout=w, stderr=subprocess.DEVNULL)
os.close(w)
time.sleep(0.5)                                      # the reader is busy: the 64 KiB pipe fills up
total = 0
with open(outfile, "wb") as f:
    while True:
        b = os.read(r, 4096)
        if not b:
            break
        f.write(b)
        total += len(b)
        if total > 64 << 20:                         # safety net: never loop for ever
            p.kill()
            break
        time.sleep(0.0005)
print("STATUS", p.wait())
