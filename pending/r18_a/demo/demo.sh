#!/usr/bin/env bash
# usage: bash demo.sh <worktree>
# Runs generate_likelysubtags with stdout = a non-blocking pipe whose reader is slow.
# exit 1: the generator reported SUCCESS (exit 0) but what it printed is not the table
#         that the CLDR data determine (= the checked-in tables.rs).
# exit 0: the output is right, or the generator failed loudly (non-zero exit status).
set -u
WT=$(cd "$1" && pwd)
HERE=$(cd "$(dirname "$0")" && pwd)
export CARGO_NET_OFFLINE=true
TMP=$(mktemp -d); trap 'rm -rf "$TMP"' EXIT

( cd "$WT/unic-langid-impl" && cargo build --offline --features "likelysubtags binary" --bin generate_likelysubtags >"$TMP/build.log" 2>&1 ) \
    || { cat "$TMP/build.log"; echo "demo: build failed"; exit 2; }
BIN="$WT/target/debug/generate_likelysubtags"
REF="$WT/unic-langid-impl/src/likelysubtags/tables.rs"

# sanity: ordinary use (stdout = file) reproduces the checked-in table
( cd "$WT/unic-langid-impl" && "$BIN" >"$TMP/plain.rs" ) || { echo "demo: plain run failed"; exit 2; }
norm() { tr -d ' \n' <"$1" | sed 's/,)/)/g'; }   # the checked-in file is the generator output passed through rustfmt
[ "$(norm "$TMP/plain.rs" | md5sum)" = "$(norm "$REF" | md5sum)" ] || { echo "demo: plain run differs from checked-in table (unexpected)"; exit 2; }

st=$(python3 "$HERE/nonblock_run.py" "$WT/unic-langid-impl" "$TMP/pipe.rs" "$BIN" | awk '/^STATUS/{print $2}')
if [ "$st" != "0" ]; then
    echo "demo: generator failed loudly on the non-blocking pipe (status $st) - nobody would commit that output. OK"
    exit 0
fi
if cmp -s "$TMP/pipe.rs" "$TMP/plain.rs"; then
    echo "demo: output on the non-blocking pipe is identical to the ordinary output (= checked-in table modulo rustfmt). OK"
    exit 0
fi
echo "demo: generator exited 0 but its output is NOT the table determined by the CLDR data:"
echo "  checked-in tables.rs : $(wc -c <"$TMP/plain.rs") bytes (unformatted), $(grep -c '^pub static LANG_ONLY' "$TMP/plain.rs") LANG_ONLY header(s)"
echo "  output on the pipe   : $(wc -c <"$TMP/pipe.rs") bytes, $(grep -c '^pub static LANG_ONLY' "$TMP/pipe.rs") LANG_ONLY header(s), $(grep -c 'CLDR_VERSION' "$TMP/pipe.rs") CLDR_VERSION line(s)"
echo "  first difference:"; cmp "$TMP/pipe.rs" "$TMP/plain.rs" | head -1
exit 1
