#!/usr/bin/env bash
# Confirm a sub-agent's seeded change in its scratch worktree (never in /repo):
#   tools/confirm.sh <worktree> <out-dir>
# 1. worktree must contain exactly the change of <out-dir>/patch.diff relative to HEAD
# 2. baseline tests pass with the change; generator binaries build
# 3. demo/demo.sh <worktree> exits 1 with the change, 0 after reversing it
set -u
WT="$1"; OUT="$2"
export CARGO_NET_OFFLINE=true
cd "$WT" || exit 2
git checkout -q -- . && git clean -fdq -e target
git apply "$OUT/patch.diff" || { echo "CONFIRM: patch does not apply"; exit 2; }
echo "== tests with change"
cargo test --workspace --no-fail-fast --offline 2>&1 | grep -E "^test result|FAILED|failed" | sort | uniq -c
cargo test --workspace --no-fail-fast --offline >/dev/null 2>&1; t=$?
echo "tests exit=$t"
cargo build -p unic-langid-impl --features "likelysubtags binary" --bins --offline >/dev/null 2>&1; b=$?
echo "bins build exit=$b"
echo "== demo with change"
bash "$OUT/demo/demo.sh" "$WT" >"$OUT/demo_output_with_change.txt" 2>&1; d1=$?
tail -5 "$OUT/demo_output_with_change.txt"
echo "demo with change exit=$d1"
git apply -R "$OUT/patch.diff"
echo "== demo without change"
bash "$OUT/demo/demo.sh" "$WT" >"$OUT/demo_output_without_change.txt" 2>&1; d0=$?
tail -3 "$OUT/demo_output_without_change.txt"
echo "demo without change exit=$d0"
git checkout -q -- . && git clean -fdq -e target
if [ $t -eq 0 ] && [ $b -eq 0 ] && [ $d1 -eq 1 ] && [ $d0 -eq 0 ]; then echo "CONFIRMED"; exit 0; else echo "NOT-CONFIRMED"; exit 1; fi
