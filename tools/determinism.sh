#!/usr/bin/env bash
# Determinism proof for the simulator: many VERIF_SEED values, each executed twice in separate
# processes (one worker vs 16 workers, tens of processes running concurrently); the per-run
# event-log digests, event counts and output digests must be byte-identical.
# Usage: tools/determinism.sh [seeds=48] [runs_per_seed=400]
set -u
cd "$(dirname "$0")/.."
./run.sh setup >/dev/null || exit 2
BIN="$PWD/gensim/target/release/gensim"
SEEDS=${1:-48}; RUNS=${2:-400}
OUT=$(mktemp -d /tmp/c18-det.XXXXXX); trap 'rm -rf "$OUT"' EXIT
for s in $(seq 1 "$SEEDS"); do
  ( "$BIN" trace --seed "$s" --from 0 --to "$RUNS" --threads 1  > "$OUT/a.$s" ) &
  ( "$BIN" trace --seed "$s" --from 0 --to "$RUNS" --threads 16 > "$OUT/b.$s" ) &
  if (( s % 12 == 0 )); then wait; fi
done
wait
# the likely-subtags generator: more runs when it meets nondeterminism (DET_LIKELY_RUNS)
LR=${DET_LIKELY_RUNS:-16}
for g in likely; do
  "$BIN" trace --gen $g --seed 1 --from 0 --to "$LR" --threads 1 > "$OUT/a.$g" &
  "$BIN" trace --gen $g --seed 1 --from 0 --to "$LR" --threads 7 > "$OUT/b.$g" &
done
wait
# crash-restart histories (sessions) of both generators
SR=${DET_SESSIONS:-300}
for g in layout likely; do
  n=$SR; [ $g = likely ] && n=$((SR / 10 + 8))
  "$BIN" trace --sessions 1 --gen $g --seed 1 --from 0 --to "$n" --threads 1 > "$OUT/a.sess-$g" &
  "$BIN" trace --sessions 1 --gen $g --seed 1 --from 0 --to "$n" --threads 16 > "$OUT/b.sess-$g" &
done
wait
# S7: concurrent callers of the lookup (workload and schedule from the seed)
CR=${DET_CONC:-2000}
"$BIN" trace --conc 1 --seed 1 --from 0 --to "$CR" --threads 1 > "$OUT/a.conc" &
"$BIN" trace --conc 1 --seed 1 --from 0 --to "$CR" --threads 16 > "$OUT/b.conc" &
wait
bad=0; lines=0
for s in $(seq 1 "$SEEDS") likely sess-layout sess-likely conc; do
  if ! cmp -s "$OUT/a.$s" "$OUT/b.$s"; then bad=$((bad+1)); echo "MISMATCH seed $s"; diff "$OUT/a.$s" "$OUT/b.$s" | head -4; fi
  lines=$((lines + $(wc -l < "$OUT/a.$s")))
done
distinct=$(cat "$OUT"/a.* | awk '{print $5}' | sort -u | wc -l)
echo "sessions: $(cat "$OUT"/a.sess-* | wc -l) histories executed twice, $(cat "$OUT"/a.sess-* | awk '{print $5}' | sort -u | wc -l) distinct"
echo "determinism: $lines runs executed twice in separate processes (1 vs 16 workers, 24 processes at a time), $distinct distinct event logs, $bad mismatching seeds"
[ $bad -eq 0 ]
