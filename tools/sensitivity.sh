#!/usr/bin/env bash
# Apply each seeded / self-test change to /repo, run the C18 quick check against it, undo it.
# Usage: tools/sensitivity.sh [patch.diff ...]      (default: selftest/*/*.diff seeded/*/patch.diff)
# Expectation is derived from the path: */silent/* must stay silent (exit 0), everything else
# must be detected (exit 1 + VIOLATION line) and its replay file must reproduce while the change
# is applied and not reproduce after it is undone.
# Scratch output goes to a temp dir that is removed at the end; /verif/evidence is not touched.
set -u
cd "$(dirname "$0")/.."
BIN="$PWD/gensim/target/release/gensim"
OUT=$(mktemp -d /tmp/c18-sens.XXXXXX)
trap 'git -C /repo checkout -- . 2>/dev/null; git -C /repo clean -fdq 2>/dev/null; rm -rf "$OUT"' EXIT
if [ -n "$(git -C /repo status --porcelain --untracked-files=no)" ]; then
  echo "refusing to run: /repo has uncommitted changes" >&2; exit 2
fi
patches=("$@")
[ ${#patches[@]} -eq 0 ] && patches=(selftest/*/*.diff selftest/*/*.sh seeded/*/patch.diff)
fail=0
printf "%-44s %-8s %-8s %s\n" change expected got detail
for p in "${patches[@]}"; do
  [ -f "$p" ] || continue
  name=$(echo "$p" | sed 's#/patch.diff##; s#\.diff$##; s#\.sh$##')
  case "$p" in */silent/*) want=silent;; *) want=detect;; esac
  if [[ "$p" == *.sh ]]; then
    if ! (cd /repo && bash "$(realpath "$OLDPWD/$p" 2>/dev/null || realpath "$p")") >"$OUT/apply.err" 2>&1; then
      printf "%-44s %-8s %-8s %s\n" "$name" $want ERROR "mutator failed: $(tail -1 "$OUT/apply.err")"; fail=1; git -C /repo checkout -- .; continue
    fi
  elif ! git -C /repo apply "$(realpath "$p")" 2>"$OUT/apply.err"; then
    printf "%-44s %-8s %-8s %s\n" "$name" $want ERROR "patch does not apply: $(head -1 "$OUT/apply.err")"; fail=1; continue
  fi
  ./run.sh setup >/dev/null 2>"$OUT/build.err"; b=$?
  if [ $b -ne 0 ]; then
    got="exit2"; detail="harness/build error: $(grep -m1 -E '^error' /verif/gensim/build.log)"
  else
    timeout 1500 "$BIN" check --tier quick --seed "${VERIF_SEED:-1}" --evidence "$OUT/ev.json" --replay-dir "$OUT/replays" >"$OUT/log" 2>&1; rc=$?
    viol=$(grep -c '^VIOLATION' "$OUT/log")
    first=$(grep -m1 '^violation:' "$OUT/log" | cut -c1-150)
    rp=$(grep -m1 '^VIOLATION' "$OUT/log" | sed 's/.*replay=//')
    got="exit$rc"; detail="$viol violation line(s); $first"
    if [ $rc -eq 1 ] && [ -n "$rp" ]; then
      "$BIN" replay "$rp" --quiet 1 >"$OUT/replay.log" 2>&1; r1=$?
      git -C /repo checkout -- .; git -C /repo clean -fdq
      ./run.sh setup >/dev/null 2>&1
      "$BIN" replay "$rp" --quiet 1 >"$OUT/replay2.log" 2>&1; r2=$?
      detail="$detail | replay with change: exit $r1, after undo: exit $r2"
      mini=$(python3 -c "
import json,sys
j=json.load(open('$rp')); m=j.get('minimisation')
print('' if not m else 'minimised: %s->%s non-default decisions, %s->%s displaced entries, %s replays' % (m['nondefault_decisions_before'],m['nondefault_decisions_after'],m['displaced_dir_entries_before'],m['displaced_dir_entries_after'],m['replays_run']))" 2>/dev/null)
      [ -n "$mini" ] && detail="$detail | $mini"
      if [ $r1 -ne 1 ] || [ $r2 -ne 0 ]; then got="$got(replay!)"; fi
    fi
  fi
  git -C /repo checkout -- .; git -C /repo clean -fdq
  ok=1
  if [ $want = detect ] && [ "$got" != exit1 ]; then ok=0; fi
  if [ $want = silent ] && [ "$got" != exit0 ]; then ok=0; fi
  [ $ok -eq 0 ] && { fail=1; got="$got <<<MISMATCH"; }
  printf "%-44s %-8s %-8s %s\n" "$name" $want "$got" "$detail"
done
./run.sh setup >/dev/null 2>&1
exit $fail
