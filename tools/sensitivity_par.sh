#!/usr/bin/env bash
# Parallel version of sensitivity.sh: every lane gets its own scratch worktree of /repo and its
# own copy of the simulator with the path /repo rewritten to that worktree, so /repo itself is
# never touched and several changes are checked at once.
#   tools/sensitivity_par.sh [-j LANES] [patch.diff ...]   (default: all of selftest/ and seeded/)
# Expectation from the path: */silent/* must stay silent (exit 0); everything else must be
# detected (exit 1 + VIOLATION line), its replay must reproduce with the change applied and must
# not reproduce after the change is undone.
# Scratch lives under /tmp/c18-par.* and is removed at the end (worktrees included).
set -u
# bash reads a script as it goes: run from a private copy, so that editing this file while a long
# run is in progress cannot derail the run
if [ -z "${SENS_PAR_COPY:-}" ]; then
  SENS_PAR_HOME="$(cd "$(dirname "$0")/.." && pwd)"
  c=$(mktemp /tmp/sens_par.XXXXXX)
  cp "$0" "$c"
  SENS_PAR_COPY="$c" SENS_PAR_HOME="$SENS_PAR_HOME" exec bash "$c" "$@"
fi
cd "$SENS_PAR_HOME"
rm -f "$SENS_PAR_COPY"
VERIF="$PWD"
LANES=5
if [ "${1:-}" = "-j" ]; then LANES="$2"; shift 2; fi
patches=("$@")
[ ${#patches[@]} -eq 0 ] && patches=(selftest/*/*.diff selftest/*/*.sh seeded/*/patch.diff)
ROOT=$(mktemp -d /tmp/c18-par.XXXXXX)
export CARGO_NET_OFFLINE=true
cleanup() {
  for l in $(seq 1 "$LANES"); do
    git -C /repo worktree remove --force "$ROOT/l$l/repo" 2>/dev/null
  done
  git -C /repo worktree prune 2>/dev/null
  rm -rf "$ROOT"
}
trap cleanup EXIT

lane() {
  local l="$1"; shift
  local L="$ROOT/l$l"; local REPO="$L/repo"; local G="$L/gensim"; local OUT="$L/out"
  mkdir -p "$L" "$OUT"
  git -C /repo worktree add -q --detach "$REPO" HEAD || { echo "lane $l: cannot create worktree" >&2; return; }
  mkdir -p "$G"
  (cd "$VERIF/gensim" && tar cf - --exclude=target --exclude=build.log .) | (cd "$G" && tar xf -)
  # the simulator names the repository by absolute path in a handful of places
  grep -rl '/repo' "$G" --include='*.rs' --include='*.toml' | xargs sed -i "s#\\([^.]\\)/repo\\([/\"]\\)#\\1$REPO\\2#g"
  mkdir -p "$L/becheck"
  (cd "$VERIF/becheck" && tar cf - --exclude=target --exclude=setup.log .) | (cd "$L/becheck" && tar xf -)
  sed -i "s#\"/repo#\"$REPO#g" "$L/becheck/Cargo.toml"
  local BIN="$G/target/release/gensim"
  local fallback=""
  build() {
    fallback=""
    if ! (cd "$G" && cargo build --release --offline --quiet 2>"$G/build.log"); then
      local ok=""
      for feats in "likelysubtags libgen" "path_shadow likelysubtags" "likelysubtags" "path_shadow libgen" "path_shadow" "" "likelysubtags nogens" "nogens"; do
        if (cd "$G" && cargo build --release --offline --quiet --no-default-features --features "$feats" 2>"$G/build.log"); then
          ok=yes; fallback=" [fallback build: features='$feats']"; break
        fi
      done
      [ -n "$ok" ] || return 1
    fi
    # real binaries: built from and run in a scratch copy of the lane's tree (as run.sh does)
    rm -f "$G/target/realbins/debug/generate_layout" "$G/target/realbins/debug/generate_likelysubtags"
    mkdir -p "$G/target/realws"
    rsync -a --delete --delete-excluded --exclude /target --exclude /.git "$REPO/" "$G/target/realws/" 2>>"$G/build.log" && \
      (cd "$G/target/realws/unic-langid-impl" && CARGO_TARGET_DIR="$G/target/realbins" cargo build --offline --quiet --features binary --bins 2>>"$G/build.log") || true
    return 0
  }
  for p in "$@"; do
    [ -f "$p" ] || continue
    local name; name=$(echo "$p" | sed 's#/patch.diff##; s#\.diff$##; s#\.sh$##')
    local want=detect; case "$p" in */silent/*) want=silent;; esac
    # a seeded change that was judged to be outside what the property says (meta.json says so and
    # why) is expected to stay undetected; if it is ever detected the record needs another look
    if [ -f "$(dirname "$p")/meta.json" ] && grep -q '"expected": *"not-detected' "$(dirname "$p")/meta.json"; then want=miss; fi
    git -C "$REPO" checkout -q -- . ; git -C "$REPO" clean -fdq
    if [[ "$p" == *.sh ]]; then
      if ! (cd "$REPO" && bash "$VERIF/$p") >"$OUT/apply.err" 2>&1; then
        printf "%-52s %-7s %-8s %s\n" "$name" $want ERROR "mutator failed: $(tail -1 "$OUT/apply.err")" >>"$L/result"; continue
      fi
    elif ! git -C "$REPO" apply "$VERIF/$p" 2>"$OUT/apply.err"; then
      printf "%-52s %-7s %-8s %s\n" "$name" $want ERROR "patch does not apply: $(head -1 "$OUT/apply.err")" >>"$L/result"; continue
    fi
    local got detail
    if ! build; then
      got="exit2"; detail="harness/build error: $(grep -m1 -E '^error' "$G/build.log")"
    else
      rm -rf "$OUT/replays"
      timeout 1500 "$BIN" check --tier quick --threads "${SENS_THREADS:-6}" --seed "${VERIF_SEED:-1}" --evidence "$OUT/ev.json" --replay-dir "$OUT/replays" \
        --real-bins "$G/target/realbins/debug" --real-cwd "$G/target/realws/unic-langid-impl" --becheck "$L/becheck" >"$OUT/log" 2>&1; local rc=$?
      if [ $rc -gt 2 ] && [ $rc -ne 124 ]; then
        # as run.sh does: the simulator process died -> again with every run in a forked child
        fallback="$fallback [process died with status $rc: repeated with a child process per run]"
        rm -rf "$OUT/replays"
        GENSIM_ISOLATE=1 timeout 1500 "$BIN" check --tier quick --threads "${SENS_THREADS:-6}" --seed "${VERIF_SEED:-1}" --evidence "$OUT/ev.json" --replay-dir "$OUT/replays" \
          --real-bins "$G/target/realbins/debug" --real-cwd "$G/target/realws/unic-langid-impl" --becheck "$L/becheck" >"$OUT/log" 2>&1; rc=$?
      fi
      local viol first rp
      viol=$(grep -c '^VIOLATION' "$OUT/log")
      first=$(grep -m1 '^violation:' "$OUT/log" | cut -c1-140)
      rp=$(grep -m1 '^VIOLATION' "$OUT/log" | sed 's/.*replay=//')
      got="exit$rc"; detail="$viol violation line(s);$fallback $first"
      [ $rc -eq 2 ] && detail="$detail $(grep -m1 HARNESS-ERROR "$OUT/log" | cut -c1-160)"
      if [ $rc -eq 1 ] && [ -n "$rp" ]; then
        "$BIN" replay "$rp" --quiet 1 >"$OUT/replay.log" 2>&1; local r1=$?
        git -C "$REPO" checkout -q -- . ; git -C "$REPO" clean -fdq
        build
        "$BIN" replay "$rp" --quiet 1 >"$OUT/replay2.log" 2>&1; local r2=$?
        detail="$detail | replay with change: exit $r1, after undo: exit $r2"
        if [ $r1 -ne 1 ] || [ $r2 -ne 0 ]; then got="$got(replay!)"; fi
      fi
    fi
    local ok=1
    if [ $want = detect ] && [ "$got" != exit1 ]; then ok=0; fi
    if [ $want = silent ] && [ "$got" != exit0 ]; then ok=0; fi
    if [ $want = miss ] && [ "$got" != exit0 ]; then ok=0; fi
    [ $ok -eq 0 ] && got="$got <<<MISMATCH"
    printf "%-52s %-7s %-8s %s\n" "$name" $want "$got" "$detail" >>"$L/result"
  done
}

# deal the patches round-robin
for l in $(seq 1 "$LANES"); do
  share=()
  i=0
  for p in "${patches[@]}"; do
    if [ $((i % LANES + 1)) -eq "$l" ]; then share+=("$p"); fi
    i=$((i + 1))
  done
  [ ${#share[@]} -gt 0 ] && lane "$l" "${share[@]}" &
done
wait
printf "%-52s %-7s %-8s %s\n" change expected got detail
cat "$ROOT"/l*/result 2>/dev/null | sort
if cat "$ROOT"/l*/result 2>/dev/null | grep -q 'MISMATCH\|ERROR'; then exit 1; fi
exit 0
