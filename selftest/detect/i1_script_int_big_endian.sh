#!/usr/bin/env bash
# mutator (cwd = /repo): Script's integer form becomes big-endian in the conversion only;
# tables are NOT regenerated -> generator output no longer matches, lookups of scripts fail.
set -e
sed -i 's/u32::from_le_bytes(\*input.0.all_bytes())/u32::from_be_bytes(*input.0.all_bytes())/' unic-langid-impl/src/subtags/script.rs
grep -q from_be_bytes unic-langid-impl/src/subtags/script.rs
