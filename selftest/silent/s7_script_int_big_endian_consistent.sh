#!/usr/bin/env bash
# mutator (cwd = /repo): Script's integer form becomes big-endian CONSISTENTLY: conversion,
# unchecked constructor, and both table files regenerated with the repository's own generators.
# The property still holds (tables are what the CLDR data determine under the new integer form).
set -e
f=unic-langid-impl/src/subtags/script.rs
sed -i 's/u32::from_le_bytes(\*input.0.all_bytes())/u32::from_be_bytes(*input.0.all_bytes())/' $f
sed -i 's/Self(TinyStr4::from_bytes_unchecked(v.to_le_bytes()))/Self(TinyStr4::from_bytes_unchecked(v.to_be_bytes()))/' $f
grep -q from_be_bytes $f && grep -q to_be_bytes $f
cd unic-langid-impl
export CARGO_TARGET_DIR=$(mktemp -d /tmp/s7-target.XXXXXX)
cargo run -q --offline --features binary --bin generate_likelysubtags > /tmp/s7_tables.rs 2>/dev/null
cargo run -q --offline --features binary --bin generate_layout > /tmp/s7_layout.rs 2>/dev/null
cp /tmp/s7_tables.rs src/likelysubtags/tables.rs
cp /tmp/s7_layout.rs src/layout_table.rs
rm -rf "$CARGO_TARGET_DIR" /tmp/s7_tables.rs /tmp/s7_layout.rs
