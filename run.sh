#!/usr/bin/env bash
# Usage: ./run.sh C18 quick|thorough            (env VERIF_SEED, VERIF_TIER honoured)
#        ./run.sh C18 --replay <file>
#        ./run.sh setup
#        ./run.sh selftest                      (harness unit tests)
# exit 0 = property held on everything explored; 1 = "VIOLATION property=C18 replay=<file>";
# 2 = harness error (build failure, seams not exercised, determinism self-check failed).
set -u
cd "$(dirname "$0")"
export CARGO_NET_OFFLINE=true
ROOT="$PWD"
GENSIM="$ROOT/gensim"
BIN=$GENSIM/target/release/gensim

build() {
  # Rebuilds from /repo's current working tree: the generator sources are include!d, the
  # library is a path dependency, both tracked by cargo. The hook cfg is set in
  # gensim/.cargo/config.toml (rustflags = --cfg unic_locale_verif).
  if ! (cd "$GENSIM" && cargo build --release --offline --quiet 2>"$GENSIM/build.log"); then
    # The generators are compiled against wrappers of std::path::{Path, PathBuf} (file-system
    # queries answered by the simulated file system), and the library's sources are compiled a
    # second time under the thread engine (S7). A program that uses a corner of the path API the
    # wrappers lack, or a library that does not compile inside the simulator (a new dependency,
    # a primitive the engine lacks), must not cost the whole check: build again with the real path
    # types (Path::exists and friends then ask the real tree), then without S7, then without both.
    cp "$GENSIM/build.log" "$GENSIM/build.first.log"
    built=""
    # default features: path_shadow (Path/PathBuf wrappers), likelysubtags (S7: the library under the
    # thread engine), libgen (a library that itself does I/O is compiled behind the generators' seams)
    for feats in "likelysubtags libgen" "path_shadow likelysubtags" "likelysubtags" "path_shadow libgen" "path_shadow" "" "likelysubtags nogens" "nogens"; do
      if (cd "$GENSIM" && cargo build --release --offline --quiet --no-default-features --features "$feats" 2>"$GENSIM/build.log"); then
        built="yes"
        case " $feats " in *" path_shadow "*) ;; *) echo "note: built with the real path types: the generators (or the library they call) do not compile against the simulator's Path/PathBuf wrappers (see $GENSIM/build.first.log)" >&2 ;; esac
        case " $feats " in *" likelysubtags "*) ;; *) echo "note: built without the concurrent-callers batch S7: the library does not compile inside the simulator (see $GENSIM/build.first.log)" >&2 ;; esac
        case " $feats " in *" libgen "*|*" nogens "*) ;; *) echo "note: built without the library copy behind the generators' seams: I/O, hash containers or threads inside the LIBRARY on behalf of a generator are not simulated (see $GENSIM/build.first.log)" >&2 ;; esac
        case " $feats " in *" nogens "*) echo "note: the generator programs do not compile behind the simulator's seams; built WITHOUT them: no simulation batches, the real binaries are judged instead (see $GENSIM/build.first.log)" >&2 ;; esac
        break
      fi
    done
    if [ -z "$built" ]; then
      echo "HARNESS-ERROR: the simulator does not build against /repo's working tree (see $GENSIM/build.log)" >&2
      grep -E "^error" -A8 "$GENSIM/build.log" | head -60 >&2
      exit 2
    fi
  fi
  # the real generator binaries (no hook cfg, no seam) for the fidelity cross-check, built from and
  # run in a scratch copy of /repo's working tree under gensim/target (never in /repo itself: what
  # a generator leaves on disk must not reach the tree the checks read). A failure to build them is
  # not fatal here: the simulator has already compiled the same sources.
  REALWS="$GENSIM/target/realws"
  mkdir -p "$REALWS"
  # never run binaries of an earlier tree: if this build fails there are none
  rm -f "$GENSIM/target/realbins/debug/generate_layout" "$GENSIM/target/realbins/debug/generate_likelysubtags"
  if rsync -a --delete --delete-excluded --exclude /target --exclude /.git /repo/ "$REALWS/" 2>>"$GENSIM/build.log"; then
    (cd "$REALWS/unic-langid-impl" && CARGO_TARGET_DIR="$GENSIM/target/realbins" cargo build --offline --quiet --features binary --bins 2>>"$GENSIM/build.log") || \
      echo "note: real generator binaries not built; fidelity cross-check will be skipped" >&2
  else
    echo "note: no scratch copy of the repository; fidelity cross-check will be skipped" >&2
  fi
}

case "${1:-}" in
  setup)
    build
    # the interpreter's standard library for the machines of S5 (becheck: big-endian, 32-bit): built once,
    # offline, from the nightly toolchain's rust-src; without it S5 is skipped with a note
    : >"$ROOT/becheck/setup.log"
    for t in s390x-unknown-linux-gnu i686-unknown-linux-gnu; do
      (cd "$ROOT/becheck" && cargo +nightly miri setup --target $t >>"$ROOT/becheck/setup.log" 2>&1) || \
        echo "note: no Miri sysroot for $t; that machine of S5 will be skipped" >&2
    done
    echo "setup ok"
    ;;
  selftest)
    # unit tests of the simulator's own seam semantics (timed waits, deadlock, exit freeze,
    # short writes, formatter stub, replay-plan routing, covering family)
    (cd "$GENSIM" && cargo test --release --offline --quiet) || exit 2
    ;;
  C18)
    shift
    build
    case "${1:-quick}" in
      --replay)
        [ -n "${2:-}" ] || { echo "usage: ./run.sh C18 --replay <file>" >&2; exit 2; }
        "$BIN" replay "$2"; rc=$?
        case $rc in
          0|1|2) exit $rc ;;
        esac
        # as for a check: the replayed run took the simulator process down -> in a forked child
        echo "NOTE: the simulator process died (exit status $rc); replaying in a forked child process" >&2
        GENSIM_ISOLATE=1 "$BIN" replay "$2"; rc=$?
        case $rc in
          0|1|2) exit $rc ;;
        esac
        echo "HARNESS-ERROR: the simulator process died again (exit status $rc)" >&2
        exit 2
        ;;
      quick|thorough)
        # replay files of earlier checks describe earlier trees
        rm -f "$ROOT"/replays/*.json
        tier="${VERIF_TIER:-$1}"
        [ "$1" = thorough ] && tier=thorough
        check() {
          "$BIN" check --tier "$tier" --seed "${VERIF_SEED:-1}" \
            --evidence "$ROOT/evidence/C18.json" --replay-dir "$ROOT/replays" --known "$ROOT/KNOWN_FINDINGS.json" \
            --real-bins "$GENSIM/target/realbins/debug" --real-cwd "$GENSIM/target/realws/unic-langid-impl" \
            --becheck "$ROOT/becheck"
        }
        check; rc=$?
        case $rc in
          0|1|2) exit $rc ;;
        esac
        # The simulator process itself died (abort, stack overflow, kill): some simulated run took
        # the process down with it - e.g. a threaded program whose destructors use synchronisation
        # primitives while a panic of its own unwinds (a second panic aborts). That is a property of
        # one run, not a verdict: repeat the check with every simulated run in a forked child, where
        # a dying run is a failed run and is judged as one.
        echo "NOTE: the simulator process died (exit status $rc); repeating the check with every simulated run in a forked child process" >&2
        rm -f "$ROOT"/replays/*.json
        GENSIM_ISOLATE=1 check; rc=$?
        case $rc in
          0|1|2) exit $rc ;;
        esac
        echo "HARNESS-ERROR: the simulator process died again (exit status $rc) with every run in a child process" >&2
        exit 2
        ;;
      *) echo "usage: ./run.sh C18 quick|thorough|--replay <file>" >&2; exit 2 ;;
    esac
    ;;
  *)
    echo "usage: ./run.sh setup | C18 quick|thorough|--replay <file>" >&2
    exit 2
    ;;
esac
