//! S7 when the library does not compile inside the simulator (a new dependency the simulator
//! does not have, a corner of `std::sync`/`std::thread` the engine lacks): the check goes on
//! without the concurrent-callers batch and says so — never a harness error for that alone.
//! Same surface as conc.rs, nothing behind it.

use crate::oracle::Violation;
use std::collections::BTreeMap;

#[derive(Clone, Copy, Debug, PartialEq)]
pub enum Policy {
    Explicit,
}

#[derive(Default, Debug, Clone)]
pub struct SchedLog {
    pub picks: Vec<u32>,
    pub deviations: Vec<(u32, u32)>,
}

#[derive(Debug, Clone, Default)]
pub struct Outcome {
    pub answers: u64,
    pub wrong: Vec<(String, String, String)>,
    pub panic: Option<String>,
    pub log: SchedLog,
}

#[derive(Clone, Debug, Default)]
pub struct Workload;

#[derive(Default)]
pub struct Report {
    pub runs: u64,
    pub requested: u64,
    pub forked: bool,
    pub process_state: Option<String>,
    pub answers: u64,
    pub steps: u64,
    pub choice_points: u64,
    pub switches: u64,
    pub deviations: u64,
    pub distinct_interleavings: u64,
    pub distinct_workloads: u64,
    pub max_threads: u64,
    pub failing_runs: u64,
    pub by_policy: BTreeMap<String, u64>,
    pub failing: Vec<(u64, Violation)>,
    pub determinism_rechecked: u64,
    pub determinism_mismatches: u64,
    pub sample: Option<serde_json::Value>,
}

pub struct Minimised {
    pub outcome: Outcome,
}

pub const BUILT: bool = false;

pub fn library_process_state() -> Option<String> {
    None
}
pub fn run_batch(_seed: u64, _runs: u64, _threads: u64, _budget: std::time::Duration) -> Report {
    Report::default()
}
pub fn minimise(_seed: u64, _run: u64, _fork: bool, _signature: &str) -> Option<Minimised> {
    None
}
pub fn violation_of(_o: &Outcome) -> Option<Violation> {
    None
}
pub fn replay_json(_m: &Minimised) -> serde_json::Value {
    serde_json::Value::Null
}
pub fn replay(_j: &serde_json::Value) -> Result<Vec<Violation>, String> {
    Err("this build of the simulator has no concurrent-callers batch (the library did not compile inside it)".into())
}
pub fn run_params(_seed: u64, _i: u64) -> (u64, Policy, u64) {
    (0, Policy::Explicit, 0)
}
pub fn workload(_wseed: u64) -> Workload {
    Workload
}
pub fn execute_isolated(_w: &Workload, _p: Policy, _s: u64, _e: &[(u32, u32)], _fork: bool) -> Outcome {
    Outcome::default()
}
pub fn outcome_digest(_o: &Outcome) -> u64 {
    0
}
pub fn debug_run(_seed: u64, _run: u64) {
    println!("no concurrent-callers batch in this build");
}
