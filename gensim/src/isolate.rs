//! Process isolation of simulated runs.
//!
//! A generator is a program: every real execution starts with fresh statics. Inside the simulator
//! the generators are functions of one long-lived process, so a `static` with interior mutability
//! (a `Lazy` interner, a `OnceLock` cache, a "seen" set behind a `Mutex`, a `thread_local!`) would
//! survive from one simulated run to the next and be shared by the worker threads — state leaking
//! between executions that never share memory in reality (false alarms and misses), and engine
//! primitives used from several OS threads at once (control `k5_r2` aborted the harness).
//! When the generator sources declare such state, every simulated run is executed in a **forked
//! child** of the simulator: it inherits the loaded data image and the schedule, runs exactly one
//! execution with pristine statics, and sends the result back through a pipe. A child that does not
//! finish within the run time limit is killed and reported as a run that does not terminate.

use crate::sim::{Gen, RunResult};
use crate::world::{CrashKind, Decision, Disk, IterRecord, RunStats, Tweak};
use std::sync::atomic::{AtomicBool, AtomicU64, Ordering};

pub static ISOLATE: AtomicBool = AtomicBool::new(false);
pub static FORKS: AtomicU64 = AtomicU64::new(0);
pub static KILLED: AtomicU64 = AtomicU64::new(0);
/// wall-clock limit of one isolated run, seconds
pub static LIMIT_S: AtomicU64 = AtomicU64::new(120);
/// set in a forked child: it must not touch locks other threads of the parent may have held
pub static IN_CHILD: AtomicBool = AtomicBool::new(false);

/// Does this source text declare state that outlives a call of `main`?
pub fn declares_process_state(src: &str) -> Option<String> {
    for (n, line) in src.lines().enumerate() {
        let t = line.trim_start();
        if t.starts_with("//") {
            continue;
        }
        let is_static = t.starts_with("static ") || t.starts_with("pub static ") || t.starts_with("pub(crate) static ") || t.contains(" static ref ");
        let hit = t.starts_with("thread_local!")
            || t.starts_with("lazy_static!")
            || t.starts_with("static mut ")
            || t.starts_with("pub static mut ")
            || (is_static
                && ["Mutex", "RwLock", "Atomic", "Cell", "Lazy", "Once", "Condvar", "Barrier"]
                    .iter()
                    .any(|k| t.contains(k)));
        if hit {
            return Some(format!("line {}: {}", n + 1, t.chars().take(90).collect::<String>()));
        }
        // (round 11) a static whose declared type names a type of the program's own (CamelCase
        // identifier other than Option): the interior mutability may sit inside that type (seeded
        // `m44`: `static LANG_CACHE: [LangCacheSlot; N]`, a struct of two atomics). Plain tables
        // (`[(u64, (Option<u64>, ..)); N]`, `&str`, integers) are not affected.
        if is_static {
            let after = t.split_once(':').map(|x| x.1).unwrap_or("");
            let ty = after.split('=').next().unwrap_or("");
            let mut ident = String::new();
            let mut own_type = false;
            for c in ty.chars().chain(std::iter::once(' ')) {
                if c.is_ascii_alphanumeric() || c == '_' {
                    ident.push(c);
                } else {
                    let camel = ident.chars().next().map(|c| c.is_ascii_uppercase()).unwrap_or(false) && ident.chars().any(|c| c.is_ascii_lowercase());
                    if camel && ident != "Option" && ident != "PhantomData" {
                        own_type = true;
                    }
                    ident.clear();
                }
            }
            if own_type {
                return Some(format!("line {}: {}", n + 1, t.chars().take(90).collect::<String>()));
            }
        }
    }
    None
}

// ---------------------------------------------------------------------------------------------
// wire format
// ---------------------------------------------------------------------------------------------
#[derive(Default)]
struct W(Vec<u8>);
impl W {
    fn u64(&mut self, v: u64) {
        self.0.extend_from_slice(&v.to_le_bytes());
    }
    fn bytes(&mut self, b: &[u8]) {
        self.u64(b.len() as u64);
        self.0.extend_from_slice(b);
    }
    fn str(&mut self, s: &str) {
        self.bytes(s.as_bytes());
    }
    fn opt_str(&mut self, s: &Option<String>) {
        match s {
            Some(s) => {
                self.u64(1);
                self.str(s);
            }
            None => self.u64(0),
        }
    }
}
struct R<'a>(&'a [u8], usize);
impl<'a> R<'a> {
    fn u64(&mut self) -> Result<u64, String> {
        let e = self.1 + 8;
        if e > self.0.len() {
            return Err("truncated result".into());
        }
        let v = u64::from_le_bytes(self.0[self.1..e].try_into().unwrap());
        self.1 = e;
        Ok(v)
    }
    fn bytes(&mut self) -> Result<&'a [u8], String> {
        let n = self.u64()? as usize;
        let e = self.1 + n;
        if e > self.0.len() {
            return Err("truncated result".into());
        }
        let b = &self.0[self.1..e];
        self.1 = e;
        Ok(b)
    }
    fn str(&mut self) -> Result<String, String> {
        Ok(String::from_utf8_lossy(self.bytes()?).into_owned())
    }
    fn opt_str(&mut self) -> Result<Option<String>, String> {
        Ok(if self.u64()? == 1 { Some(self.str()?) } else { None })
    }
}

fn stats_to_vec(s: &RunStats) -> Vec<u64> {
    vec![s.read_dir_calls, s.read_dir_nonsorted, s.containers, s.containers_nonzero_keys, s.tweaks_applied, s.iterations, s.whole_file_reads, s.opens, s.short_reads, s.eintr, s.bytes_read, s.fs_escapes, s.prints, s.thread_spawns, s.thread_spawns_deferred, s.sched_steps, s.sched_choice_points, s.context_switches, s.sched_deviations, s.max_tasks, s.timeouts_offered, s.timeouts_fired, s.timeouts_natural, s.cores_asked, s.short_writes, s.write_eintr, s.stderr_prints, s.prints_after_exit, s.clock_reads, s.shuttle_runs, s.programs_spawned, s.programs_missing, s.fd_limit_decisions, s.emfile, s.max_open_fds, s.parallel_stages, s.read_faults_injected, s.write_faults_injected, s.stat_faults_injected, s.spawn_faults_injected, s.thread_panics_survived]
}
fn stats_from_vec(v: &[u64]) -> RunStats {
    RunStats {
        read_dir_calls: v[0],
        read_dir_nonsorted: v[1],
        containers: v[2],
        containers_nonzero_keys: v[3],
        tweaks_applied: v[4],
        iterations: v[5],
        whole_file_reads: v[6],
        opens: v[7],
        short_reads: v[8],
        eintr: v[9],
        bytes_read: v[10],
        fs_escapes: v[11],
        prints: v[12],
        thread_spawns: v[13],
        thread_spawns_deferred: v[14],
        sched_steps: v[15],
        sched_choice_points: v[16],
        context_switches: v[17],
        sched_deviations: v[18],
        max_tasks: v[19],
        timeouts_offered: v[20],
        timeouts_fired: v[21],
        timeouts_natural: v[22],
        cores_asked: v[23],
        short_writes: v[24],
        write_eintr: v[25],
        stderr_prints: v[26],
        prints_after_exit: v[27],
        clock_reads: v[28],
        shuttle_runs: v[29],
        programs_spawned: v[30],
        programs_missing: v[31],
        fd_limit_decisions: v[32],
        emfile: v[33],
        max_open_fds: v[34],
        parallel_stages: v[35],
        read_faults_injected: v[36],
        write_faults_injected: v[37],
        stat_faults_injected: v[38],
        spawn_faults_injected: v[39],
        thread_panics_survived: v[40],
    }
}
const N_STATS: usize = 41;

fn put_decision(w: &mut W, d: &Decision) {
    match d {
        Decision::ReadDir { path, order } => {
            w.u64(0);
            w.str(path);
            w.u64(order.len() as u64);
            for x in order {
                w.u64(*x as u64);
            }
        }
        Decision::Container { kind, k0, k1, tweak } => {
            w.u64(1);
            w.u64(*kind as u64);
            w.u64(*k0);
            w.u64(*k1);
            match tweak {
                Tweak::None => w.u64(0),
                Tweak::Reverse => w.u64(1),
                Tweak::Rotate(p) => {
                    w.u64(2);
                    w.u64(*p as u64);
                }
                Tweak::Zigzag { index, reverse } => {
                    w.u64(3);
                    w.u64(*index as u64);
                    w.u64(*reverse as u64);
                }
            }
        }
        Decision::Open { path, io_seed } => {
            w.u64(2);
            w.str(path);
            w.u64(*io_seed);
        }
        Decision::Sched { at, task } => {
            w.u64(3);
            w.u64(*at);
            w.u64(*task as u64);
        }
        Decision::Cores { n } => {
            w.u64(4);
            w.u64(*n as u64);
        }
        Decision::Timeout { fired } => {
            w.u64(5);
            w.u64(*fired as u64);
        }
        Decision::Program { name, available } => {
            w.u64(6);
            w.str(name);
            w.u64(*available as u64);
        }
        Decision::FdLimit { n } => {
            w.u64(7);
            w.u64(*n as u64);
        }
        Decision::ReadFault { at } => {
            w.u64(8);
            w.u64(*at);
        }
        Decision::WriteFault { at } => {
            w.u64(9);
            w.u64(*at);
        }
        Decision::StatFault { at } => {
            w.u64(10);
            w.u64(*at);
        }
        Decision::SpawnFault { at } => {
            w.u64(11);
            w.u64(*at);
        }
        Decision::EnvJobs { name, n } => {
            w.u64(12);
            w.str(name);
            w.u64(*n as u64);
        }
    }
}

fn get_decision(r: &mut R) -> Result<Decision, String> {
    Ok(match r.u64()? {
        0 => {
            let path = r.str()?;
            let n = r.u64()? as usize;
            let mut order = Vec::with_capacity(n);
            for _ in 0..n {
                order.push(r.u64()? as u32);
            }
            Decision::ReadDir { path, order }
        }
        1 => {
            let kind = char::from_u32(r.u64()? as u32).unwrap_or('M');
            let k0 = r.u64()?;
            let k1 = r.u64()?;
            let tweak = match r.u64()? {
                0 => Tweak::None,
                1 => Tweak::Reverse,
                2 => Tweak::Rotate(r.u64()? as u32),
                _ => Tweak::Zigzag {
                    index: r.u64()? as u32,
                    reverse: r.u64()? == 1,
                },
            };
            Decision::Container { kind, k0, k1, tweak }
        }
        2 => Decision::Open {
            path: r.str()?,
            io_seed: r.u64()?,
        },
        3 => Decision::Sched {
            at: r.u64()?,
            task: r.u64()? as u32,
        },
        4 => Decision::Cores { n: r.u64()? as u32 },
        5 => Decision::Timeout { fired: r.u64()? == 1 },
        6 => Decision::Program {
            name: r.str()?,
            available: r.u64()? == 1,
        },
        7 => Decision::FdLimit { n: r.u64()? as u32 },
        8 => Decision::ReadFault { at: r.u64()? },
        9 => Decision::WriteFault { at: r.u64()? },
        10 => Decision::StatFault { at: r.u64()? },
        11 => Decision::SpawnFault { at: r.u64()? },
        12 => Decision::EnvJobs {
            name: r.str()?,
            n: r.u64()? as u32,
        },
        t => return Err(format!("unknown decision tag {}", t)),
    })
}

fn encode(r: &RunResult) -> Vec<u8> {
    let mut w = W::default();
    w.u64(0x6765_6e73_696d_0001);
    w.u64(r.trace.len() as u64);
    for d in &r.trace {
        put_decision(&mut w, d);
    }
    w.str(&r.out);
    w.u64(r.log_digest);
    w.u64(r.events);
    for x in stats_to_vec(&r.stats) {
        w.u64(x);
    }
    w.u64(r.iter_orders.len() as u64);
    for it in &r.iter_orders {
        w.u64(it.container as u64);
        w.u64(it.kind as u64);
        w.u64(it.ids.len() as u64);
        for i in &it.ids {
            w.u64(*i);
        }
    }
    w.u64(r.dir_orders.len() as u64);
    for (p, names) in &r.dir_orders {
        w.str(p);
        w.u64(names.len() as u64);
        for n in names {
            w.str(n);
        }
    }
    w.opt_str(&r.panic);
    match r.exit_code {
        Some(c) => {
            w.u64(1);
            w.u64(c as i64 as u64);
        }
        None => w.u64(0),
    }
    w.u64(r.hard_fired as u64);
    w.u64(r.stalled as u64);
    w.u64(r.under_shuttle as u64);
    w.u64(r.sched_digest);
    w.u64(r.diverged as u64);
    w.u64(r.leftover_decisions as u64);
    match &r.verbose_log {
        Some(v) => {
            w.u64(1);
            w.u64(v.len() as u64);
            for l in v {
                w.str(l);
            }
        }
        None => w.u64(0),
    }
    w.u64(match r.crashed {
        None => 0,
        Some(CrashKind::Kill) => 1,
        Some(CrashKind::PowerLoss) => 2,
    });
    w.u64(r.torn_write as u64);
    w.u64(r.crash_points);
    w.u64(r.fs_mutations);
    w.u64(r.metadata_queries);
    let d = &r.disk_after;
    w.u64(d.files.len() as u64);
    for (k, v) in &d.files {
        w.str(k);
        w.bytes(v);
    }
    w.u64(d.mtimes.len() as u64);
    for (k, v) in &d.mtimes {
        w.str(k);
        w.u64(*v);
    }
    w.u64(d.removed.len() as u64);
    for k in &d.removed {
        w.str(k);
    }
    w.u64(d.clock_ns);
    w.u64(d.mtime_seed);
    w.u64(d.epoch as u64);
    w.0
}

fn decode(gen: Gen, buf: &[u8]) -> Result<RunResult, String> {
    let mut r = R(buf, 0);
    if r.u64()? != 0x6765_6e73_696d_0001 {
        return Err("bad magic".into());
    }
    let n = r.u64()? as usize;
    let mut trace = Vec::with_capacity(n);
    for _ in 0..n {
        trace.push(get_decision(&mut r)?);
    }
    let out = r.str()?;
    let log_digest = r.u64()?;
    let events = r.u64()?;
    let mut sv = Vec::with_capacity(N_STATS);
    for _ in 0..N_STATS {
        sv.push(r.u64()?);
    }
    let stats = stats_from_vec(&sv);
    let n = r.u64()? as usize;
    let mut iter_orders = Vec::with_capacity(n);
    for _ in 0..n {
        let container = r.u64()? as u32;
        let kind = char::from_u32(r.u64()? as u32).unwrap_or('M');
        let m = r.u64()? as usize;
        let mut ids = Vec::with_capacity(m);
        for _ in 0..m {
            ids.push(r.u64()?);
        }
        iter_orders.push(IterRecord { container, kind, ids });
    }
    let n = r.u64()? as usize;
    let mut dir_orders = Vec::with_capacity(n);
    for _ in 0..n {
        let p = r.str()?;
        let m = r.u64()? as usize;
        let mut names = Vec::with_capacity(m);
        for _ in 0..m {
            names.push(r.str()?);
        }
        dir_orders.push((p, names));
    }
    let panic = r.opt_str()?;
    let exit_code = if r.u64()? == 1 { Some(r.u64()? as i64 as i32) } else { None };
    let hard_fired = r.u64()? == 1;
    let stalled = r.u64()? == 1;
    let under_shuttle = r.u64()? == 1;
    let sched_digest = r.u64()?;
    let diverged = r.u64()? == 1;
    let leftover_decisions = r.u64()? as usize;
    let verbose_log = if r.u64()? == 1 {
        let m = r.u64()? as usize;
        let mut v = Vec::with_capacity(m);
        for _ in 0..m {
            v.push(r.str()?);
        }
        Some(v)
    } else {
        None
    };
    let crashed = match r.u64()? {
        1 => Some(CrashKind::Kill),
        2 => Some(CrashKind::PowerLoss),
        _ => None,
    };
    let torn_write = r.u64()? == 1;
    let crash_points = r.u64()?;
    let fs_mutations = r.u64()?;
    let metadata_queries = r.u64()?;
    let mut disk = Disk::default();
    for _ in 0..r.u64()? {
        let k = r.str()?;
        let v = r.bytes()?.to_vec();
        disk.files.insert(k, v);
    }
    for _ in 0..r.u64()? {
        let k = r.str()?;
        let v = r.u64()?;
        disk.mtimes.insert(k, v);
    }
    for _ in 0..r.u64()? {
        let k = r.str()?;
        disk.removed.insert(k);
    }
    disk.clock_ns = r.u64()?;
    disk.mtime_seed = r.u64()?;
    disk.epoch = r.u64()? as u32;
    Ok(RunResult {
        gen,
        profile: None,
        trace,
        out,
        log_digest,
        events,
        stats,
        iter_orders,
        dir_orders,
        panic,
        exit_code,
        hard_fired,
        stalled,
        under_shuttle,
        sched_digest,
        diverged,
        leftover_decisions,
        verbose_log,
        crashed,
        torn_write,
        crash_points,
        fs_mutations,
        metadata_queries,
        disk_after: disk,
        intruder: None,
        company_ambiguous: false,
        inodes_after: None,
        orphans_after: Default::default(),
    })
}

// ---------------------------------------------------------------------------------------------
// fork
// ---------------------------------------------------------------------------------------------
/// Run `f` in a forked child and return the bytes it produced (no time limit beyond the run limit).
pub fn fork_call(f: impl FnOnce() -> Vec<u8>) -> Result<Vec<u8>, String> {
    let mut fds = [0i32; 2];
    if unsafe { libc::pipe(fds.as_mut_ptr()) } != 0 {
        return Err("pipe() failed".into());
    }
    let pid = unsafe { libc::fork() };
    if pid < 0 {
        unsafe {
            libc::close(fds[0]);
            libc::close(fds[1]);
        }
        return Err("fork() failed".into());
    }
    if pid == 0 {
        IN_CHILD.store(true, Ordering::SeqCst);
        unsafe { libc::close(fds[0]) };
        let buf = std::panic::catch_unwind(std::panic::AssertUnwindSafe(f)).unwrap_or_default();
        let mut off = 0usize;
        while off < buf.len() {
            let n = unsafe { libc::write(fds[1], buf[off..].as_ptr() as *const libc::c_void, buf.len() - off) };
            if n <= 0 {
                break;
            }
            off += n as usize;
        }
        unsafe {
            libc::close(fds[1]);
            libc::_exit(0);
        }
    }
    unsafe { libc::close(fds[1]) };
    let mut buf: Vec<u8> = vec![];
    let mut chunk = vec![0u8; 1 << 16];
    let started = std::time::Instant::now();
    let limit = std::time::Duration::from_secs(LIMIT_S.load(Ordering::Relaxed));
    let mut timed_out = false;
    loop {
        if started.elapsed() > limit {
            timed_out = true;
            break;
        }
        let mut p = libc::pollfd {
            fd: fds[0],
            events: libc::POLLIN,
            revents: 0,
        };
        let pr = unsafe { libc::poll(&mut p, 1, 1000) };
        if pr <= 0 {
            continue;
        }
        let n = unsafe { libc::read(fds[0], chunk.as_mut_ptr() as *mut libc::c_void, chunk.len()) };
        if n > 0 {
            buf.extend_from_slice(&chunk[..n as usize]);
        } else if n == 0 {
            break;
        } else if std::io::Error::last_os_error().kind() != std::io::ErrorKind::Interrupted {
            break;
        }
    }
    unsafe { libc::close(fds[0]) };
    let mut status = 0i32;
    if timed_out {
        unsafe { libc::kill(pid, libc::SIGKILL) };
    }
    unsafe { libc::waitpid(pid, &mut status, 0) };
    if timed_out {
        return Err("the child did not finish in time".into());
    }
    Ok(buf)
}

/// (round 11) A gating fault (read error, full disk, open-file limit, stalled machine, missing
/// tool) fired in this child: tell the parent at once. A child that then dies without a result —
/// the engine aborts when a worker thread's panic tears the execution down while destructors of
/// the program still use synchronisation primitives (control `n3_r4`) — died *loudly under a
/// fault*, which a program may do; without the notice the parent would report the death as a
/// failure under a legal schedule.
pub const FAULT_NOTICE: &[u8; 8] = b"GSFAULT1";
static NOTICE_SENT: AtomicBool = AtomicBool::new(false);
pub fn child_fault_notice() {
    if !IN_CHILD.load(Ordering::Relaxed) {
        return;
    }
    let fd = CHILD_FD.load(Ordering::Relaxed);
    if fd < 0 || NOTICE_SENT.swap(true, Ordering::SeqCst) {
        return;
    }
    unsafe { libc::write(fd, FAULT_NOTICE.as_ptr() as *const libc::c_void, FAULT_NOTICE.len()) };
}

/// write end of the result pipe in a forked child of `run_in_child` (-1 elsewhere)
pub static CHILD_FD: std::sync::atomic::AtomicI32 = std::sync::atomic::AtomicI32::new(-1);

/// In a forked child: send this result to the parent and end the process here and now.
pub fn child_send_and_die(r: &RunResult) -> ! {
    let fd = CHILD_FD.load(Ordering::Relaxed);
    let buf = encode(r);
    let mut off = 0usize;
    while off < buf.len() {
        let n = unsafe { libc::write(fd, buf[off..].as_ptr() as *const libc::c_void, buf.len() - off) };
        if n <= 0 {
            break;
        }
        off += n as usize;
    }
    unsafe {
        libc::close(fd);
        libc::_exit(0);
    }
}

/// what the parent learns from one isolated run
pub enum Outcome {
    Done(RunResult),
    /// the child did not finish within the limit and was killed
    Hung(u64),
    /// the child died without a result (abort, stack overflow, signal)
    Died(String),
    /// the child died without a result after a gating fault had fired in it: a loud failure
    DiedUnderFault(String),
}

/// Execute `f` in a forked child and bring its result back.
pub fn run_in_child(gen: Gen, f: impl FnOnce() -> RunResult) -> Outcome {
    let mut fds = [0i32; 2];
    if unsafe { libc::pipe(fds.as_mut_ptr()) } != 0 {
        return Outcome::Died("pipe() failed".into());
    }
    FORKS.fetch_add(1, Ordering::Relaxed);
    let pid = unsafe { libc::fork() };
    if pid < 0 {
        unsafe {
            libc::close(fds[0]);
            libc::close(fds[1]);
        }
        return Outcome::Died("fork() failed".into());
    }
    if pid == 0 {
        // ---- child: exactly one simulated execution, then gone without running any destructor
        IN_CHILD.store(true, Ordering::SeqCst);
        unsafe { libc::close(fds[0]) };
        CHILD_FD.store(fds[1], Ordering::SeqCst);
        let r = std::panic::catch_unwind(std::panic::AssertUnwindSafe(f));
        let buf = match r {
            Ok(r) => encode(&r),
            Err(_) => vec![],
        };
        let mut off = 0usize;
        while off < buf.len() {
            let n = unsafe { libc::write(fds[1], buf[off..].as_ptr() as *const libc::c_void, buf.len() - off) };
            if n <= 0 {
                break;
            }
            off += n as usize;
        }
        unsafe {
            libc::close(fds[1]);
            libc::_exit(0);
        }
    }
    // ---- parent
    unsafe { libc::close(fds[1]) };
    let limit_ms = LIMIT_S.load(Ordering::Relaxed).saturating_mul(1000) as i64;
    let started = std::time::Instant::now();
    let mut buf: Vec<u8> = Vec::with_capacity(1 << 16);
    let mut chunk = vec![0u8; 1 << 16];
    let mut hung = false;
    loop {
        let left = limit_ms - started.elapsed().as_millis() as i64;
        if left <= 0 {
            hung = true;
            break;
        }
        let mut p = libc::pollfd {
            fd: fds[0],
            events: libc::POLLIN,
            revents: 0,
        };
        let pr = unsafe { libc::poll(&mut p, 1, left.min(1000) as i32) };
        if pr < 0 {
            continue; // EINTR
        }
        if pr == 0 {
            continue;
        }
        let n = unsafe { libc::read(fds[0], chunk.as_mut_ptr() as *mut libc::c_void, chunk.len()) };
        if n > 0 {
            buf.extend_from_slice(&chunk[..n as usize]);
        } else if n == 0 {
            break;
        } else {
            let e = std::io::Error::last_os_error();
            if e.kind() != std::io::ErrorKind::Interrupted {
                break;
            }
        }
    }
    unsafe { libc::close(fds[0]) };
    let mut status = 0i32;
    if hung {
        KILLED.fetch_add(1, Ordering::Relaxed);
        unsafe {
            libc::kill(pid, libc::SIGKILL);
            libc::waitpid(pid, &mut status, 0);
        }
        return Outcome::Hung(LIMIT_S.load(Ordering::Relaxed));
    }
    unsafe { libc::waitpid(pid, &mut status, 0) };
    let mut under_fault = false;
    while buf.starts_with(FAULT_NOTICE) {
        buf.drain(..FAULT_NOTICE.len());
        under_fault = true;
    }
    if buf.is_empty() {
        let how = if libc::WIFSIGNALED(status) {
            format!("killed by signal {}", libc::WTERMSIG(status))
        } else {
            format!("exit status {}", libc::WEXITSTATUS(status))
        };
        return if under_fault { Outcome::DiedUnderFault(how) } else { Outcome::Died(how) };
    }
    match decode(gen, &buf) {
        Ok(r) => Outcome::Done(r),
        Err(e) => Outcome::Died(format!("unreadable result: {}", e)),
    }
}

#[cfg(test)]
mod tests {
    use super::*;
    #[test]
    fn process_state_is_recognised() {
        assert!(declares_process_state("static POOL: Lazy<Mutex<Pool>> = Lazy::new(Default::default);").is_some());
        assert!(declares_process_state("    thread_local! { static X: Cell<u8> = Cell::new(0); }").is_some());
        assert!(declares_process_state("static mut N: usize = 0;").is_some());
        assert!(declares_process_state("lazy_static! { static ref RE: u8 = 1; }").is_some());
        assert!(declares_process_state("static NAMES: [&str; 2] = [\"a\", \"b\"];\nconst X: u8 = 1;\nfn main() { let cell = 1; }").is_none());
        assert!(declares_process_state("// static mut N: usize = 0;").is_none());
    }
}
