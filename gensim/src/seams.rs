//! The seams the generators see instead of `std::fs` and the randomly keyed `std` containers.
//!
//! The generator sources are compiled unmodified (`include!`) inside a module in which the name
//! `std` resolves to [`shadow_std`]: everything is re-exported from the real `std`, except
//! `std::fs::{read_dir, read_to_string, read, File}`, `std::collections::{HashMap, HashSet}`
//! (also under `hash_map::` / `hash_set::`) and `RandomState`, which are owned by the simulator.

#![allow(dead_code)]

#[allow(unused_imports)]
pub mod shadow_std {
    pub use ::std::*;
    /// `std::thread_local!` inside a simulated program gives every *simulated* thread its own copy
    pub use shuttle::thread_local;
    /// the macro `env!` by name (see main.rs): the same definition the generator modules see textually
    pub(crate) use crate::__env_by_path as env;

    pub mod collections {
        pub use super::super::coll::{HashMap, HashSet};
        pub use ::std::collections::*;
        pub mod hash_map {
            pub use super::super::super::coll::HashMap;
            pub use super::super::super::coll::SimBuild as RandomState;
            pub use ::std::collections::hash_map::*;
        }
        pub mod hash_set {
            pub use super::super::super::coll::HashSet;
            pub use ::std::collections::hash_set::*;
        }
    }

    pub mod hash {
        pub use super::super::coll::SimBuild as RandomState;
        pub use ::std::hash::*;
    }

    /// `Path`/`PathBuf` whose file-system queries see the simulated file system
    #[cfg(feature = "path_shadow")]
    pub mod path {
        pub use super::super::simpath::{Path, PathBuf};
        pub use ::std::path::*;
    }

    pub mod fs {
        pub use super::super::simfs::{
            canonicalize, copy, create_dir, create_dir_all, exists, hard_link, metadata, read, read_dir, read_link, read_to_string, remove_dir,
            remove_dir_all, remove_file, rename, set_permissions, symlink_metadata, write, DirBuilder, DirEntry, File, FileType, Metadata, OpenOptions,
            ReadDir,
        };
        pub use ::std::fs::*;
    }

    pub mod io {
        pub use super::super::simio::{stderr, stdin, stdout, Stderr, StderrLock, Stdin, StdinLock, Stdout, StdoutLock};
        pub use ::std::io::*;
    }

    pub mod env {
        pub use super::super::simenv::{args, args_os, current_dir, current_exe, set_current_dir, temp_dir, var, var_os, vars};
        pub use ::std::env::*;
    }

    /// (round 13) descriptor-level handles of the simulated process: `AsFd`/`AsRawFd`/`OwnedFd`
    /// of the simulated stdout, stderr and files (a program that duplicates its stdout descriptor
    /// must not get the simulator's real one)
    pub mod os {
        pub use ::std::os::*;
        pub mod fd {
            pub use super::super::super::simfd::{AsFd, AsRawFd, BorrowedFd, FromRawFd, IntoRawFd, OwnedFd, RawFd};
            pub use ::std::os::fd::*;
        }
        pub mod unix {
            pub use ::std::os::unix::*;
            pub mod io {
                pub use super::super::super::super::simfd::{AsFd, AsRawFd, BorrowedFd, FromRawFd, IntoRawFd, OwnedFd, RawFd};
                pub use ::std::os::unix::io::*;
            }
            pub mod prelude {
                pub use super::super::super::super::simfd::{AsFd, AsRawFd, BorrowedFd, FromRawFd, IntoRawFd, OwnedFd, RawFd};
                pub use ::std::os::unix::prelude::*;
            }
        }
    }

    pub mod process {
        pub use super::super::simenv::{exit, id};
        pub use super::super::simproc::{Child, ChildStderr, ChildStdin, ChildStdout, Command, Stdio};
        pub use ::std::process::*;
    }

    /// Threads and synchronisation run under the shuttle engine: every lock, channel operation,
    /// atomic access, spawn and join is a scheduling point at which the simulator decides which
    /// thread runs next (world::decide_sched).
    pub mod thread {
        pub use super::super::simthread::{
            available_parallelism, park_timeout, scope, sleep, spawn, Builder, JoinHandle, Scope, ScopedJoinHandle,
        };
        pub use ::std::thread::*;
        pub use shuttle::thread::{current, park, yield_now, AccessError, LocalKey, Thread, ThreadId};
    }

    pub mod sync {
        pub use ::std::sync::*;
        pub use super::super::simsync::{Condvar, Mutex, MutexGuard, WaitTimeoutResult};
        pub use shuttle::sync::{
            Barrier, BarrierWaitResult, Once, OnceState, RwLock, RwLockReadGuard, RwLockWriteGuard,
        };
        pub mod atomic {
            pub use shuttle::sync::atomic::*;
        }
        pub mod mpsc {
            pub use super::super::super::simthread::mpsc::{channel, sync_channel, IntoIter, Iter, Receiver, TryIter};
            pub use shuttle::sync::mpsc::{
                RecvError, RecvTimeoutError, SendError, Sender, SyncSender, TryRecvError, TrySendError,
            };
        }
    }

    /// Wall clock and monotonic clock read the simulated clock.
    pub mod time {
        pub use super::super::simtime::{Instant, SystemTime, UNIX_EPOCH};
        pub use ::std::time::*;
    }
}

// =============================================================================================
// Collections
// =============================================================================================
pub mod coll {
    use crate::rng::Fnv;
    use crate::world::{self, IterRecord, Tweak};
    use std::borrow::Borrow;
    use std::sync::atomic::{AtomicBool, Ordering};
    use std::collections::HashMap as StdMap;
    use std::collections::HashSet as StdSet;
    use std::hash::{BuildHasher, Hash, Hasher};
    use std::ops::{Deref, DerefMut};

    /// Seeded replacement of `RandomState`. Creating one is a simulator decision (keys + tweak).
    #[derive(Clone, Debug)]
    pub struct SimBuild {
        pub id: u32,
        pub kind: char,
        pub k0: u64,
        pub k1: u64,
        pub tweak: Tweak,
    }

    impl SimBuild {
        pub fn decide(kind: char) -> SimBuild {
            let (id, k0, k1, tweak) = world::with(|w| w.decide_container(kind));
            SimBuild { id, kind, k0, k1, tweak }
        }
        /// `RandomState::new()`
        #[allow(clippy::new_without_default)]
        pub fn new() -> SimBuild {
            SimBuild::decide('R')
        }
    }

    impl Default for SimBuild {
        fn default() -> Self {
            SimBuild::decide('R')
        }
    }

    impl BuildHasher for SimBuild {
        #[allow(deprecated)]
        type Hasher = std::hash::SipHasher;
        #[allow(deprecated)]
        fn build_hasher(&self) -> Self::Hasher {
            std::hash::SipHasher::new_with_keys(self.k0, self.k1)
        }
    }

    /// identity of a key for coverage bookkeeping: fixed-key hash (independent of the run's keys)
    #[allow(deprecated)]
    pub fn key_id<K: Hash + ?Sized>(k: &K) -> u64 {
        let mut h = std::hash::SipHasher::new_with_keys(0x5eed_c0de, 0x1d);
        k.hash(&mut h);
        h.finish()
    }

    /// Put the raw (bucket-order) elements into the order this container iterates in.
    /// `id_of` gives the fixed-key identity of an element's key (only evaluated for Zigzag).
    fn arrange<T>(mut v: Vec<T>, tweak: Tweak, id_of: impl Fn(&T) -> u64) -> Vec<T> {
        match tweak {
            Tweak::None => {}
            Tweak::Reverse => v.reverse(),
            Tweak::Rotate(p) => {
                if v.len() > 1 {
                    let r = (v.len() as u64 * p as u64 / 1000) as usize % v.len();
                    v.rotate_left(r);
                }
            }
            Tweak::Zigzag { index, reverse } => {
                // canonical base order: by key identity; then the family member's permutation
                let mut keyed: Vec<(u64, T)> = v.into_iter().map(|t| (id_of(&t), t)).collect();
                keyed.sort_by_key(|(id, _)| *id);
                let perm = world::zigzag(keyed.len(), index, reverse);
                let mut slots: Vec<Option<T>> = keyed.into_iter().map(|(_, t)| Some(t)).collect();
                v = perm.into_iter().map(|i| slots[i as usize].take().unwrap()).collect();
            }
        }
        v
    }

    fn note_iteration(b: &SimBuild, first: &AtomicBool, ids: impl Iterator<Item = u64>) {
        let is_first = !first.swap(true, Ordering::Relaxed);
        world::with(|w| {
            w.stats.iterations += 1;
            if is_first {
                let ids: Vec<u64> = ids.collect();
                let mut d = Fnv::default();
                for &i in &ids {
                    d.u64(i);
                }
                w.event("iter", b.id as u64, d.0);
                if w.collect {
                    w.iter_orders.push(IterRecord {
                        container: b.id,
                        kind: b.kind,
                        ids,
                    });
                }
            }
        });
    }

    // ---- HashMap ------------------------------------------------------------------------------

    pub struct HashMap<K, V> {
        inner: StdMap<K, V, SimBuild>,
        iterated: AtomicBool,
    }

    impl<K, V> HashMap<K, V> {
        #[allow(clippy::new_without_default)]
        pub fn new() -> Self {
            Self::with_hasher(SimBuild::decide('M'))
        }
        pub fn with_capacity(n: usize) -> Self {
            HashMap {
                inner: StdMap::with_capacity_and_hasher(n, SimBuild::decide('M')),
                iterated: AtomicBool::new(false),
            }
        }
        pub fn with_hasher(b: SimBuild) -> Self {
            HashMap {
                inner: StdMap::with_hasher(b),
                iterated: AtomicBool::new(false),
            }
        }
        pub fn with_capacity_and_hasher(n: usize, b: SimBuild) -> Self {
            HashMap {
                inner: StdMap::with_capacity_and_hasher(n, b),
                iterated: AtomicBool::new(false),
            }
        }
    }

    impl<K: Hash + Eq, V> HashMap<K, V> {
        fn note(&self) {
            note_iteration(
                self.inner.hasher(),
                &self.iterated,
                arrange(self.inner.keys().collect(), self.inner.hasher().tweak, |k| key_id(*k))
                    .into_iter()
                    .map(|k| key_id(k)),
            );
        }
        pub fn iter(&self) -> std::vec::IntoIter<(&K, &V)> {
            self.note();
            arrange(self.inner.iter().collect(), self.inner.hasher().tweak, |t| key_id(t.0)).into_iter()
        }
        pub fn iter_mut(&mut self) -> std::vec::IntoIter<(&K, &mut V)> {
            self.note();
            let t = self.inner.hasher().tweak;
            arrange(self.inner.iter_mut().collect(), t, |t| key_id(t.0)).into_iter()
        }
        pub fn keys(&self) -> std::vec::IntoIter<&K> {
            self.note();
            arrange(self.inner.keys().collect(), self.inner.hasher().tweak, |k| key_id(*k)).into_iter()
        }
        pub fn values(&self) -> std::vec::IntoIter<&V> {
            self.iter().map(|(_, v)| v).collect::<Vec<_>>().into_iter()
        }
        pub fn values_mut(&mut self) -> std::vec::IntoIter<&mut V> {
            self.iter_mut().map(|(_, v)| v).collect::<Vec<_>>().into_iter()
        }
        pub fn into_keys(self) -> std::vec::IntoIter<K> {
            self.into_iter().map(|(k, _)| k).collect::<Vec<_>>().into_iter()
        }
        pub fn into_values(self) -> std::vec::IntoIter<V> {
            self.into_iter().map(|(_, v)| v).collect::<Vec<_>>().into_iter()
        }
        pub fn drain(&mut self) -> std::vec::IntoIter<(K, V)> {
            self.note();
            let t = self.inner.hasher().tweak;
            arrange(self.inner.drain().collect(), t, |t| key_id(&t.0)).into_iter()
        }
    }

    impl<K, V> Deref for HashMap<K, V> {
        type Target = StdMap<K, V, SimBuild>;
        fn deref(&self) -> &Self::Target {
            &self.inner
        }
    }
    impl<K, V> DerefMut for HashMap<K, V> {
        fn deref_mut(&mut self) -> &mut Self::Target {
            &mut self.inner
        }
    }
    impl<K, V> Default for HashMap<K, V> {
        fn default() -> Self {
            Self::new()
        }
    }
    impl<K: Clone, V: Clone> Clone for HashMap<K, V> {
        fn clone(&self) -> Self {
            HashMap {
                inner: self.inner.clone(),
                iterated: AtomicBool::new(false),
            }
        }
    }
    impl<K: std::fmt::Debug + Hash, V: std::fmt::Debug> std::fmt::Debug for HashMap<K, V> {
        fn fmt(&self, f: &mut std::fmt::Formatter) -> std::fmt::Result {
            let t = self.inner.hasher().tweak;
            f.debug_map()
                .entries(arrange(self.inner.iter().collect(), t, |t| key_id(t.0)))
                .finish()
        }
    }
    impl<K: Hash + Eq, V: PartialEq> PartialEq for HashMap<K, V> {
        fn eq(&self, o: &Self) -> bool {
            self.inner == o.inner
        }
    }
    impl<K: Hash + Eq, V: Eq> Eq for HashMap<K, V> {}
    impl<K: Hash + Eq, V> IntoIterator for HashMap<K, V> {
        type Item = (K, V);
        type IntoIter = std::vec::IntoIter<(K, V)>;
        fn into_iter(self) -> Self::IntoIter {
            self.note();
            let t = self.inner.hasher().tweak;
            arrange(self.inner.into_iter().collect(), t, |t| key_id(&t.0)).into_iter()
        }
    }
    impl<'a, K: Hash + Eq, V> IntoIterator for &'a HashMap<K, V> {
        type Item = (&'a K, &'a V);
        type IntoIter = std::vec::IntoIter<(&'a K, &'a V)>;
        fn into_iter(self) -> Self::IntoIter {
            self.iter()
        }
    }
    impl<'a, K: Hash + Eq, V> IntoIterator for &'a mut HashMap<K, V> {
        type Item = (&'a K, &'a mut V);
        type IntoIter = std::vec::IntoIter<(&'a K, &'a mut V)>;
        fn into_iter(self) -> Self::IntoIter {
            self.iter_mut()
        }
    }
    impl<K: Hash + Eq, V> FromIterator<(K, V)> for HashMap<K, V> {
        fn from_iter<I: IntoIterator<Item = (K, V)>>(it: I) -> Self {
            let mut m = HashMap::new();
            m.inner.extend(it);
            m
        }
    }
    impl<K: Hash + Eq, V> Extend<(K, V)> for HashMap<K, V> {
        fn extend<I: IntoIterator<Item = (K, V)>>(&mut self, it: I) {
            self.inner.extend(it)
        }
    }
    impl<K: Hash + Eq, V, const N: usize> From<[(K, V); N]> for HashMap<K, V> {
        fn from(a: [(K, V); N]) -> Self {
            a.into_iter().collect()
        }
    }
    impl<K: Hash + Eq + Borrow<Q>, Q: Hash + Eq + ?Sized, V> std::ops::Index<&Q> for HashMap<K, V> {
        type Output = V;
        fn index(&self, k: &Q) -> &V {
            self.inner.get(k).expect("no entry found for key")
        }
    }

    // ---- HashSet ------------------------------------------------------------------------------

    pub struct HashSet<T> {
        inner: StdSet<T, SimBuild>,
        iterated: AtomicBool,
    }

    impl<T> HashSet<T> {
        #[allow(clippy::new_without_default)]
        pub fn new() -> Self {
            Self::with_hasher(SimBuild::decide('S'))
        }
        pub fn with_capacity(n: usize) -> Self {
            HashSet {
                inner: StdSet::with_capacity_and_hasher(n, SimBuild::decide('S')),
                iterated: AtomicBool::new(false),
            }
        }
        pub fn with_hasher(b: SimBuild) -> Self {
            HashSet {
                inner: StdSet::with_hasher(b),
                iterated: AtomicBool::new(false),
            }
        }
    }

    impl<T: Hash + Eq> HashSet<T> {
        fn note(&self) {
            note_iteration(
                self.inner.hasher(),
                &self.iterated,
                arrange(self.inner.iter().collect(), self.inner.hasher().tweak, |k| key_id(*k))
                    .into_iter()
                    .map(|k| key_id(k)),
            );
        }
        pub fn iter(&self) -> std::vec::IntoIter<&T> {
            self.note();
            arrange(self.inner.iter().collect(), self.inner.hasher().tweak, |k| key_id(*k)).into_iter()
        }
        pub fn drain(&mut self) -> std::vec::IntoIter<T> {
            self.note();
            let t = self.inner.hasher().tweak;
            arrange(self.inner.drain().collect(), t, |k| key_id(k)).into_iter()
        }
    }

    impl<T> Deref for HashSet<T> {
        type Target = StdSet<T, SimBuild>;
        fn deref(&self) -> &Self::Target {
            &self.inner
        }
    }
    impl<T> DerefMut for HashSet<T> {
        fn deref_mut(&mut self) -> &mut Self::Target {
            &mut self.inner
        }
    }
    impl<T> Default for HashSet<T> {
        fn default() -> Self {
            Self::new()
        }
    }
    impl<T: Clone> Clone for HashSet<T> {
        fn clone(&self) -> Self {
            HashSet {
                inner: self.inner.clone(),
                iterated: AtomicBool::new(false),
            }
        }
    }
    impl<T: std::fmt::Debug + Hash> std::fmt::Debug for HashSet<T> {
        fn fmt(&self, f: &mut std::fmt::Formatter) -> std::fmt::Result {
            let t = self.inner.hasher().tweak;
            f.debug_set()
                .entries(arrange(self.inner.iter().collect(), t, |k| key_id(*k)))
                .finish()
        }
    }
    impl<T: Hash + Eq> PartialEq for HashSet<T> {
        fn eq(&self, o: &Self) -> bool {
            self.inner == o.inner
        }
    }
    impl<T: Hash + Eq> Eq for HashSet<T> {}
    impl<T: Hash + Eq> IntoIterator for HashSet<T> {
        type Item = T;
        type IntoIter = std::vec::IntoIter<T>;
        fn into_iter(self) -> Self::IntoIter {
            self.note();
            let t = self.inner.hasher().tweak;
            arrange(self.inner.into_iter().collect(), t, |k| key_id(k)).into_iter()
        }
    }
    impl<'a, T: Hash + Eq> IntoIterator for &'a HashSet<T> {
        type Item = &'a T;
        type IntoIter = std::vec::IntoIter<&'a T>;
        fn into_iter(self) -> Self::IntoIter {
            self.iter()
        }
    }
    impl<T: Hash + Eq> FromIterator<T> for HashSet<T> {
        fn from_iter<I: IntoIterator<Item = T>>(it: I) -> Self {
            let mut m = HashSet::new();
            m.inner.extend(it);
            m
        }
    }
    impl<T: Hash + Eq> Extend<T> for HashSet<T> {
        fn extend<I: IntoIterator<Item = T>>(&mut self, it: I) {
            self.inner.extend(it)
        }
    }
    impl<T: Hash + Eq, const N: usize> From<[T; N]> for HashSet<T> {
        fn from(a: [T; N]) -> Self {
            a.into_iter().collect()
        }
    }
}

// =============================================================================================
// Paths
// =============================================================================================
/// `std::path::{Path, PathBuf}` as the generators see them: thin wrappers around the real types
/// whose file-system *queries* (`exists`, `is_file`, `is_dir`, `metadata`, `read_dir`,
/// `canonicalize`) are answered by the simulated file system — the image, what the session's runs
/// wrote, what they deleted — instead of the real tree. Everything else (`join`, `parent`,
/// `file_name`, `display`, ...) is the real implementation. Without this a program that asks
/// `cache_path.exists()` would be told about the real disk, where nothing a simulated run wrote
/// ever appears.
#[cfg(feature = "path_shadow")]
pub mod simpath {
    use super::simfs;
    use std::borrow::{Borrow, Cow};
    use std::ffi::{OsStr, OsString};
    use std::io;
    use std::ops::Deref;
    use std::path as real;

    #[repr(transparent)]
    #[derive(PartialEq, Eq, PartialOrd, Ord, Hash)]
    pub struct Path(real::Path);

    #[derive(Clone, Default, PartialEq, Eq, PartialOrd, Ord, Hash)]
    pub struct PathBuf(real::PathBuf);

    impl Path {
        pub fn new<S: AsRef<OsStr> + ?Sized>(s: &S) -> &Path {
            Path::wrap(real::Path::new(s))
        }
        pub(crate) fn wrap(p: &real::Path) -> &Path {
            // repr(transparent) over real::Path
            unsafe { &*(p as *const real::Path as *const Path) }
        }
        pub fn as_std(&self) -> &real::Path {
            &self.0
        }
        // ---- queries answered by the simulated file system
        pub fn exists(&self) -> bool {
            simfs::stat(&self.0).is_ok()
        }
        pub fn try_exists(&self) -> io::Result<bool> {
            Ok(self.exists())
        }
        pub fn is_file(&self) -> bool {
            simfs::stat(&self.0).map(|m| m.is_file()).unwrap_or(false)
        }
        pub fn is_dir(&self) -> bool {
            simfs::stat(&self.0).map(|m| m.is_dir()).unwrap_or(false)
        }
        pub fn is_symlink(&self) -> bool {
            false
        }
        pub fn metadata(&self) -> io::Result<simfs::Metadata> {
            simfs::stat(&self.0)
        }
        pub fn symlink_metadata(&self) -> io::Result<simfs::Metadata> {
            simfs::stat(&self.0)
        }
        pub fn read_dir(&self) -> io::Result<simfs::ReadDir> {
            simfs::read_dir(&self.0)
        }
        pub fn canonicalize(&self) -> io::Result<PathBuf> {
            simfs::canonicalize(&self.0)
        }
        pub fn read_link(&self) -> io::Result<PathBuf> {
            Err(io::Error::new(io::ErrorKind::InvalidInput, "not a symbolic link"))
        }
        // ---- everything that yields a path yields a wrapped one
        pub fn parent(&self) -> Option<&Path> {
            self.0.parent().map(Path::wrap)
        }
        pub fn join<P: AsRef<real::Path>>(&self, p: P) -> PathBuf {
            PathBuf(self.0.join(p))
        }
        pub fn to_path_buf(&self) -> PathBuf {
            PathBuf(self.0.to_path_buf())
        }
        pub fn with_extension<S: AsRef<OsStr>>(&self, e: S) -> PathBuf {
            PathBuf(self.0.with_extension(e))
        }
        pub fn with_file_name<S: AsRef<OsStr>>(&self, n: S) -> PathBuf {
            PathBuf(self.0.with_file_name(n))
        }
        pub fn strip_prefix<P: AsRef<real::Path>>(&self, base: P) -> Result<&Path, real::StripPrefixError> {
            self.0.strip_prefix(base).map(Path::wrap)
        }
        pub fn ancestors(&self) -> impl Iterator<Item = &Path> {
            self.0.ancestors().map(Path::wrap)
        }
        pub fn to_owned(&self) -> PathBuf {
            self.to_path_buf()
        }
        // ---- the rest of the real API, spelled out so that `Path::file_name` and friends can be
        // named as functions (paths through the type do not go through Deref)
        pub fn as_os_str(&self) -> &OsStr {
            self.0.as_os_str()
        }
        pub fn to_str(&self) -> Option<&str> {
            self.0.to_str()
        }
        pub fn to_string_lossy(&self) -> Cow<'_, str> {
            self.0.to_string_lossy()
        }
        pub fn is_absolute(&self) -> bool {
            self.0.is_absolute()
        }
        pub fn is_relative(&self) -> bool {
            self.0.is_relative()
        }
        pub fn has_root(&self) -> bool {
            self.0.has_root()
        }
        pub fn file_name(&self) -> Option<&OsStr> {
            self.0.file_name()
        }
        pub fn file_stem(&self) -> Option<&OsStr> {
            self.0.file_stem()
        }
        pub fn extension(&self) -> Option<&OsStr> {
            self.0.extension()
        }
        pub fn starts_with<P: AsRef<real::Path>>(&self, base: P) -> bool {
            self.0.starts_with(base)
        }
        pub fn ends_with<P: AsRef<real::Path>>(&self, child: P) -> bool {
            self.0.ends_with(child)
        }
        pub fn components(&self) -> real::Components<'_> {
            self.0.components()
        }
        pub fn iter(&self) -> real::Iter<'_> {
            self.0.iter()
        }
        pub fn display(&self) -> real::Display<'_> {
            self.0.display()
        }
        pub fn into_path_buf(self: Box<Path>) -> PathBuf {
            self.to_path_buf()
        }
    }
    impl From<&Path> for std::sync::Arc<Path> {
        fn from(p: &Path) -> Self {
            let a: std::sync::Arc<real::Path> = std::sync::Arc::from(&p.0);
            // repr(transparent)
            unsafe { std::sync::Arc::from_raw(std::sync::Arc::into_raw(a) as *const Path) }
        }
    }
    impl From<PathBuf> for std::sync::Arc<Path> {
        fn from(p: PathBuf) -> Self {
            std::sync::Arc::from(p.as_path())
        }
    }
    impl From<&Path> for std::rc::Rc<Path> {
        fn from(p: &Path) -> Self {
            let a: std::rc::Rc<real::Path> = std::rc::Rc::from(&p.0);
            unsafe { std::rc::Rc::from_raw(std::rc::Rc::into_raw(a) as *const Path) }
        }
    }
    impl From<PathBuf> for std::rc::Rc<Path> {
        fn from(p: PathBuf) -> Self {
            std::rc::Rc::from(p.as_path())
        }
    }
    impl From<PathBuf> for Box<Path> {
        fn from(p: PathBuf) -> Self {
            p.as_path().into()
        }
    }
    impl Clone for Box<Path> {
        fn clone(&self) -> Self {
            (&**self).into()
        }
    }
    impl Deref for Path {
        type Target = real::Path;
        fn deref(&self) -> &real::Path {
            &self.0
        }
    }
    impl std::fmt::Debug for Path {
        fn fmt(&self, f: &mut std::fmt::Formatter) -> std::fmt::Result {
            self.0.fmt(f)
        }
    }
    impl ToOwned for Path {
        type Owned = PathBuf;
        fn to_owned(&self) -> PathBuf {
            self.to_path_buf()
        }
    }
    impl AsRef<real::Path> for Path {
        fn as_ref(&self) -> &real::Path {
            &self.0
        }
    }
    impl AsRef<OsStr> for Path {
        fn as_ref(&self) -> &OsStr {
            self.0.as_os_str()
        }
    }
    impl AsRef<Path> for Path {
        fn as_ref(&self) -> &Path {
            self
        }
    }
    impl AsRef<Path> for str {
        fn as_ref(&self) -> &Path {
            Path::new(self)
        }
    }
    impl AsRef<Path> for String {
        fn as_ref(&self) -> &Path {
            Path::new(self)
        }
    }
    impl AsRef<Path> for OsStr {
        fn as_ref(&self) -> &Path {
            Path::new(self)
        }
    }
    impl AsRef<Path> for OsString {
        fn as_ref(&self) -> &Path {
            Path::new(self)
        }
    }
    impl AsRef<Path> for Cow<'_, OsStr> {
        fn as_ref(&self) -> &Path {
            Path::new(self)
        }
    }
    impl AsRef<Path> for real::Path {
        fn as_ref(&self) -> &Path {
            Path::wrap(self)
        }
    }
    impl AsRef<Path> for real::PathBuf {
        fn as_ref(&self) -> &Path {
            Path::wrap(self)
        }
    }
    impl PartialEq<PathBuf> for Path {
        fn eq(&self, o: &PathBuf) -> bool {
            self.0 == *o.0
        }
    }
    impl PartialEq<str> for Path {
        fn eq(&self, o: &str) -> bool {
            self.0 == *real::Path::new(o)
        }
    }
    impl<'a> IntoIterator for &'a Path {
        type Item = &'a OsStr;
        type IntoIter = real::Iter<'a>;
        fn into_iter(self) -> real::Iter<'a> {
            self.0.iter()
        }
    }
    impl<'a> From<&'a Path> for Cow<'a, Path> {
        fn from(p: &'a Path) -> Self {
            Cow::Borrowed(p)
        }
    }
    impl From<&Path> for Box<Path> {
        fn from(p: &Path) -> Box<Path> {
            let b: Box<real::Path> = p.0.into();
            // repr(transparent)
            unsafe { Box::from_raw(Box::into_raw(b) as *mut Path) }
        }
    }

    impl PathBuf {
        pub fn new() -> PathBuf {
            PathBuf(real::PathBuf::new())
        }
        pub fn with_capacity(n: usize) -> PathBuf {
            PathBuf(real::PathBuf::with_capacity(n))
        }
        pub fn as_path(&self) -> &Path {
            Path::wrap(&self.0)
        }
        pub fn push<P: AsRef<real::Path>>(&mut self, p: P) {
            self.0.push(p)
        }
        pub fn pop(&mut self) -> bool {
            self.0.pop()
        }
        pub fn set_file_name<S: AsRef<OsStr>>(&mut self, n: S) {
            self.0.set_file_name(n)
        }
        pub fn set_extension<S: AsRef<OsStr>>(&mut self, e: S) -> bool {
            self.0.set_extension(e)
        }
        pub fn into_os_string(self) -> OsString {
            self.0.into_os_string()
        }
        pub fn into_boxed_path(self) -> Box<Path> {
            self.as_path().into()
        }
        pub fn clear(&mut self) {
            self.0.clear()
        }
        pub fn reserve(&mut self, n: usize) {
            self.0.reserve(n)
        }
        pub fn capacity(&self) -> usize {
            self.0.capacity()
        }
        pub fn into_std(self) -> real::PathBuf {
            self.0
        }
    }
    impl Deref for PathBuf {
        type Target = Path;
        fn deref(&self) -> &Path {
            Path::wrap(&self.0)
        }
    }
    impl std::fmt::Debug for PathBuf {
        fn fmt(&self, f: &mut std::fmt::Formatter) -> std::fmt::Result {
            self.0.fmt(f)
        }
    }
    impl Borrow<Path> for PathBuf {
        fn borrow(&self) -> &Path {
            self
        }
    }
    impl AsRef<Path> for PathBuf {
        fn as_ref(&self) -> &Path {
            self
        }
    }
    impl AsRef<real::Path> for PathBuf {
        fn as_ref(&self) -> &real::Path {
            &self.0
        }
    }
    impl AsRef<OsStr> for PathBuf {
        fn as_ref(&self) -> &OsStr {
            self.0.as_os_str()
        }
    }
    impl<T: ?Sized + AsRef<OsStr>> From<&T> for PathBuf {
        fn from(s: &T) -> PathBuf {
            PathBuf(real::PathBuf::from(s.as_ref()))
        }
    }
    impl From<String> for PathBuf {
        fn from(s: String) -> PathBuf {
            PathBuf(real::PathBuf::from(s))
        }
    }
    impl From<OsString> for PathBuf {
        fn from(s: OsString) -> PathBuf {
            PathBuf(real::PathBuf::from(s))
        }
    }
    impl From<real::PathBuf> for PathBuf {
        fn from(p: real::PathBuf) -> PathBuf {
            PathBuf(p)
        }
    }
    impl From<PathBuf> for real::PathBuf {
        fn from(p: PathBuf) -> real::PathBuf {
            p.0
        }
    }
    impl From<PathBuf> for OsString {
        fn from(p: PathBuf) -> OsString {
            p.0.into_os_string()
        }
    }
    impl From<Box<Path>> for PathBuf {
        fn from(p: Box<Path>) -> PathBuf {
            p.to_path_buf()
        }
    }
    impl<'a> From<Cow<'a, Path>> for PathBuf {
        fn from(p: Cow<'a, Path>) -> PathBuf {
            p.into_owned()
        }
    }
    impl<'a> From<PathBuf> for Cow<'a, Path> {
        fn from(p: PathBuf) -> Self {
            Cow::Owned(p)
        }
    }
    impl<'a> From<&'a PathBuf> for Cow<'a, Path> {
        fn from(p: &'a PathBuf) -> Self {
            Cow::Borrowed(p.as_path())
        }
    }
    impl std::str::FromStr for PathBuf {
        type Err = std::convert::Infallible;
        fn from_str(s: &str) -> Result<PathBuf, Self::Err> {
            Ok(PathBuf::from(s))
        }
    }
    impl<P: AsRef<real::Path>> Extend<P> for PathBuf {
        fn extend<I: IntoIterator<Item = P>>(&mut self, it: I) {
            for p in it {
                self.0.push(p);
            }
        }
    }
    impl<P: AsRef<real::Path>> FromIterator<P> for PathBuf {
        fn from_iter<I: IntoIterator<Item = P>>(it: I) -> PathBuf {
            let mut b = PathBuf::new();
            b.extend(it);
            b
        }
    }
    impl<'a> IntoIterator for &'a PathBuf {
        type Item = &'a OsStr;
        type IntoIter = real::Iter<'a>;
        fn into_iter(self) -> real::Iter<'a> {
            self.0.iter()
        }
    }
    impl PartialEq<Path> for PathBuf {
        fn eq(&self, o: &Path) -> bool {
            *self.0 == o.0
        }
    }
    impl PartialEq<&Path> for PathBuf {
        fn eq(&self, o: &&Path) -> bool {
            *self.0 == o.0
        }
    }
    impl PartialEq<str> for PathBuf {
        fn eq(&self, o: &str) -> bool {
            *self.0 == *real::Path::new(o)
        }
    }
}

/// the path type the simulated file system hands out
#[cfg(feature = "path_shadow")]
pub type OutPathBuf = simpath::PathBuf;
#[cfg(not(feature = "path_shadow"))]
pub type OutPathBuf = std::path::PathBuf;

// =============================================================================================
// File system
// =============================================================================================
pub mod simfd {
    use super::simfs::File;
    use super::simio::{Stderr, StderrLock, Stdout, StdoutLock};
    use std::io;
    pub type RawFd = i32;
    #[derive(Clone, Copy)]
    enum Which<'a> {
        Stdio(u8),
        File(&'a File),
    }
    #[derive(Clone, Copy)]
    pub struct BorrowedFd<'a>(Which<'a>);
    impl std::fmt::Debug for BorrowedFd<'_> {
        fn fmt(&self, f: &mut std::fmt::Formatter) -> std::fmt::Result {
            write!(f, "BorrowedFd({})", self.as_raw_fd())
        }
    }
    pub enum OwnedFd {
        #[doc(hidden)]
        F(File),
    }
    impl std::fmt::Debug for OwnedFd {
        fn fmt(&self, f: &mut std::fmt::Formatter) -> std::fmt::Result {
            write!(f, "OwnedFd({})", self.as_raw_fd())
        }
    }
    pub trait AsFd {
        fn as_fd(&self) -> BorrowedFd<'_>;
    }
    pub trait AsRawFd {
        fn as_raw_fd(&self) -> RawFd;
    }
    pub trait IntoRawFd {
        fn into_raw_fd(self) -> RawFd;
    }
    pub trait FromRawFd {
        /// # Safety
        /// as `std::os::fd::FromRawFd`
        unsafe fn from_raw_fd(fd: RawFd) -> Self;
    }
    impl<'a> BorrowedFd<'a> {
        pub fn try_clone_to_owned(&self) -> io::Result<OwnedFd> {
            match self.0 {
                Which::Stdio(n) => Ok(OwnedFd::F(File::stdio_dup(n)?)),
                Which::File(f) => Ok(OwnedFd::F(f.try_clone()?)),
            }
        }
        /// # Safety
        /// as `std::os::fd::BorrowedFd::borrow_raw`; only the standard streams can be named by number
        pub unsafe fn borrow_raw(fd: RawFd) -> BorrowedFd<'a> {
            BorrowedFd(Which::Stdio(fd.clamp(0, 2) as u8))
        }
    }
    impl AsRawFd for BorrowedFd<'_> {
        fn as_raw_fd(&self) -> RawFd {
            match self.0 {
                Which::Stdio(n) => n as RawFd,
                Which::File(f) => f.as_raw_fd(),
            }
        }
    }
    impl AsFd for BorrowedFd<'_> {
        fn as_fd(&self) -> BorrowedFd<'_> {
            *self
        }
    }
    impl<T: AsFd + ?Sized> AsFd for &T {
        fn as_fd(&self) -> BorrowedFd<'_> {
            (**self).as_fd()
        }
    }
    impl OwnedFd {
        pub fn try_clone(&self) -> io::Result<OwnedFd> {
            let OwnedFd::F(f) = self;
            Ok(OwnedFd::F(f.try_clone()?))
        }
    }
    impl AsFd for OwnedFd {
        fn as_fd(&self) -> BorrowedFd<'_> {
            let OwnedFd::F(f) = self;
            BorrowedFd(Which::File(f))
        }
    }
    impl AsRawFd for OwnedFd {
        fn as_raw_fd(&self) -> RawFd {
            let OwnedFd::F(f) = self;
            f.as_raw_fd()
        }
    }
    impl From<OwnedFd> for File {
        fn from(o: OwnedFd) -> File {
            let OwnedFd::F(f) = o;
            f
        }
    }
    impl From<File> for OwnedFd {
        fn from(f: File) -> OwnedFd {
            OwnedFd::F(f)
        }
    }
    impl AsFd for File {
        fn as_fd(&self) -> BorrowedFd<'_> {
            BorrowedFd(Which::File(self))
        }
    }
    impl AsRawFd for File {
        fn as_raw_fd(&self) -> RawFd {
            self.fake_fd_number()
        }
    }
    impl FromRawFd for File {
        unsafe fn from_raw_fd(fd: RawFd) -> File {
            // only the standard streams can be named by number in the simulated process
            File::stdio_dup(fd.clamp(1, 2) as u8).expect("descriptor")
        }
    }
    macro_rules! stdio {
        ($t:ty, $n:expr) => {
            impl AsFd for $t {
                fn as_fd(&self) -> BorrowedFd<'_> {
                    BorrowedFd(Which::Stdio($n))
                }
            }
            impl AsRawFd for $t {
                fn as_raw_fd(&self) -> RawFd {
                    $n
                }
            }
        };
    }
    stdio!(Stdout, 1);
    stdio!(StdoutLock<'_>, 1);
    stdio!(Stderr, 2);
    stdio!(StderrLock<'_>, 2);
}

pub mod simfs {
    use crate::rng::{Fnv, Rng};
    use crate::world::{self, Gate};
    use std::ffi::OsString;
    use std::io;
    use std::path::{Path, PathBuf};
    use std::sync::Arc;

    /// what a path argument of the file-system functions must convert to: the generators' own
    /// `Path` (the wrapper, when the build has it), so that a helper of the program that is generic
    /// over `P: AsRef<Path>` can pass its argument on (control `t13_r4`)
    #[cfg(feature = "path_shadow")]
    pub use super::simpath::Path as ArgPath;
    #[cfg(not(feature = "path_shadow"))]
    pub use std::path::Path as ArgPath;
    #[cfg(feature = "path_shadow")]
    fn argp<P: AsRef<ArgPath> + ?Sized>(p: &P) -> &Path {
        p.as_ref().as_std()
    }
    #[cfg(not(feature = "path_shadow"))]
    fn argp<P: AsRef<ArgPath> + ?Sized>(p: &P) -> &Path {
        p.as_ref()
    }

    /// payload of the unwinding that stands for the death of the process at a crash point
    pub struct CrashRequest;

    /// a handle open for writing holds its inode (see `world::Inodes`)
    struct Writer(u64);
    impl Writer {
        fn open(key: &str) -> Writer {
            Writer(world::with(|w| w.ino_open(key)))
        }
        fn dup(&self) -> Writer {
            world::with(|w| w.ino_dup(self.0));
            Writer(self.0)
        }
    }
    impl Drop for Writer {
        fn drop(&mut self) {
            world::try_with(|w| w.ino_close(self.0));
        }
    }

    /// one open file descriptor of the simulated process
    struct Fd;
    impl Fd {
        fn open() -> io::Result<Fd> {
            match world::with(|w| w.fd_open()) {
                Ok(()) => Ok(Fd),
                // EMFILE
                Err(()) => Err(io::Error::from_raw_os_error(24)),
            }
        }
    }
    impl Drop for Fd {
        fn drop(&mut self) {
            world::try_with(|w| w.open_fds = w.open_fds.saturating_sub(1));
        }
    }

    /// the process image goes away at this instant (see `World::gate`)
    pub(crate) fn crash() -> ! {
        world::with(|w| w.crash_now());
        std::panic::panic_any(CrashRequest)
    }

    /// Is this the file-system mutation before which a second instance of a generator runs?
    pub(crate) fn maybe_intrude() {
        let plan = world::with(|w| match &w.intruder {
            Some(p) if !w.intruded && !w.frozen && !w.under_shuttle && w.fs_mutations == p.at => {
                w.intruded = true;
                Some(p.clone())
            }
            _ => None,
        });
        if let Some(p) = plan {
            crate::sim::run_intruder(p);
        }
    }

    /// One file-system mutation = one crash point. Returns false when the operation must not be
    /// applied (the process is already gone); crashes before returning when the plan says "before".
    fn gate_op() -> (bool, bool) {
        maybe_intrude();
        match world::with(|w| w.gate(true, None)) {
            Gate::Go => (true, false),
            Gate::Gone => (false, false),
            Gate::CrashBefore => crash(),
            Gate::CrashAfter | Gate::Torn(_) => (true, true),
        }
    }

    #[derive(Clone, Copy, Debug, PartialEq, Eq)]
    pub struct FileType {
        is_dir: bool,
    }
    impl FileType {
        pub(crate) fn of(is_dir: bool) -> FileType {
            FileType { is_dir }
        }
        pub fn is_dir(&self) -> bool {
            self.is_dir
        }
        pub fn is_file(&self) -> bool {
            !self.is_dir
        }
        pub fn is_symlink(&self) -> bool {
            false
        }
    }

    /// What the simulated file system knows about a path: kind, length, modification time (image
    /// files: an arbitrary checkout time per file; files the session wrote: the simulated clock at
    /// their last modification).
    #[derive(Clone, Debug)]
    pub struct Metadata {
        is_dir: bool,
        len: u64,
        mtime_ns: u64,
        ino: u64,
    }
    impl Metadata {
        pub fn is_dir(&self) -> bool {
            self.is_dir
        }
        pub fn is_file(&self) -> bool {
            !self.is_dir
        }
        pub fn is_symlink(&self) -> bool {
            false
        }
        pub fn file_type(&self) -> FileType {
            FileType { is_dir: self.is_dir }
        }
        #[allow(clippy::len_without_is_empty)]
        pub fn len(&self) -> u64 {
            self.len
        }
        pub fn modified(&self) -> io::Result<super::simtime::SystemTime> {
            Ok(super::simtime::SystemTime::from_nanos(self.mtime_ns))
        }
        /// permission bits are not modelled: what a fresh checkout has
        pub fn permissions(&self) -> std::fs::Permissions {
            use std::os::unix::fs::PermissionsExt;
            std::fs::Permissions::from_mode(if self.is_dir { 0o755 } else { 0o644 })
        }
        pub fn created(&self) -> io::Result<super::simtime::SystemTime> {
            self.modified()
        }
        pub fn accessed(&self) -> io::Result<super::simtime::SystemTime> {
            self.modified()
        }
        // std::os::unix::fs::MetadataExt look-alikes, as inherent methods
        pub fn mtime(&self) -> i64 {
            (self.mtime_ns / 1_000_000_000) as i64
        }
        pub fn mtime_nsec(&self) -> i64 {
            (self.mtime_ns % 1_000_000_000) as i64
        }
        pub fn size(&self) -> u64 {
            self.len
        }
        /// an inode number: arbitrary but fixed per path on this simulated machine
        pub fn ino(&self) -> u64 {
            self.ino
        }
        pub fn mode(&self) -> u32 {
            if self.is_dir {
                0o040755
            } else {
                0o100644
            }
        }
        pub fn nlink(&self) -> u64 {
            1
        }
        pub fn uid(&self) -> u32 {
            1000
        }
        pub fn gid(&self) -> u32 {
            1000
        }
        pub fn dev(&self) -> u64 {
            1
        }
        pub fn blksize(&self) -> u64 {
            4096
        }
        pub fn blocks(&self) -> u64 {
            (self.len + 511) / 512
        }
    }
    pub(crate) fn ino_of(key: &str) -> u64 {
        let seed = world::with(|w| w.mtime_seed);
        let mut h = Fnv::default();
        h.str(key);
        h.u64(seed ^ 0x1_0de);
        1 + h.0 % 0xffff_ffff
    }

    /// kind / length / mtime of a path as this run sees it
    pub(crate) fn stat(p: &Path) -> io::Result<Metadata> {
        if world::with(|w| w.stat_fails_now()) {
            // EIO (round 13: the gating metadata fault)
            return Err(io::Error::from_raw_os_error(5));
        }
        with_ino(p, stat_inner(p))
    }
    fn stat_inner(p: &Path) -> io::Result<Metadata> {
        let wk = write_key_of(p);
        let hit = world::with(|w| {
            w.metadata_queries += 1;
            if let Some(d) = w.written.get(&wk) {
                return Some(Ok(Metadata {
                    is_dir: false,
                    len: d.len() as u64,
                    mtime_ns: w.mtimes.get(&wk).copied().unwrap_or(w.clock_ns),
                    ino: 0,
                }));
            }
            if w.removed.contains(&wk) {
                return Some(Err(io::Error::new(io::ErrorKind::NotFound, "No such file or directory")));
            }
            let key = w.image.normalise(&w.absolute(p))?;
            if let Some(d) = w.image.files.get(&key) {
                return Some(Ok(Metadata {
                    is_dir: false,
                    len: d.len() as u64,
                    mtime_ns: w.image_mtime(&key),
                    ino: 0,
                }));
            }
            if w.image.dirs.contains_key(&key) {
                return Some(Ok(Metadata {
                    is_dir: true,
                    len: 4096,
                    mtime_ns: w.image_mtime(&key),
                    ino: 0,
                }));
            }
            Some(Err(io::Error::new(io::ErrorKind::NotFound, "No such file or directory")))
        });
        match hit {
            Some(r) => r,
            None if !inside_repo(p) => {
                if virtual_dir_exists(&wk) {
                    Ok(Metadata {
                        is_dir: true,
                        len: 4096,
                        mtime_ns: world::with(|w| w.image_mtime(&wk)),
                        ino: 0,
                    })
                } else {
                    Err(io::Error::new(io::ErrorKind::NotFound, "No such file or directory"))
                }
            }
            None => {
                // outside the image and not written by the session: the real tree answers kind and
                // length; its modification time is environment, so a seeded checkout time stands in
                world::with(|w| w.stats.fs_escapes += 1);
                let m = std::fs::metadata(real_path(p))?;
                let mt = world::with(|w| w.image_mtime(&wk));
                Ok(Metadata {
                    is_dir: m.is_dir(),
                    len: m.len(),
                    mtime_ns: mt,
                    ino: 0,
                })
            }
        }
    }

    /// `fs::set_permissions`: permission bits are not modelled; the path must exist
    pub fn set_permissions<P: AsRef<ArgPath>>(p: P, _perm: std::fs::Permissions) -> io::Result<()> {
        let p: &Path = argp(&p);
        stat_inner(p).map(|_| ())
    }
    pub fn metadata<P: AsRef<ArgPath>>(p: P) -> io::Result<Metadata> {
        let p: &Path = argp(&p);
        stat(p.as_ref())
    }
    fn with_ino(p: &Path, m: io::Result<Metadata>) -> io::Result<Metadata> {
        m.map(|mut m| {
            m.ino = ino_of(&write_key_of(p));
            m
        })
    }
    pub fn symlink_metadata<P: AsRef<ArgPath>>(p: P) -> io::Result<Metadata> {
        let p: &Path = argp(&p);
        stat(p.as_ref())
    }
    /// `std::fs::exists`
    pub fn exists<P: AsRef<ArgPath>>(p: P) -> io::Result<bool> {
        let p: &Path = argp(&p);
        Ok(stat(p.as_ref()).is_ok())
    }
    pub fn canonicalize<P: AsRef<ArgPath>>(p: P) -> io::Result<super::OutPathBuf> {
        let p: &Path = argp(&p);
        stat(p.as_ref())?;
        Ok(real_path(p.as_ref()).into())
    }
    pub fn read_link<P: AsRef<ArgPath>>(_p: P) -> io::Result<super::OutPathBuf> {
        Err(io::Error::new(io::ErrorKind::InvalidInput, "not a symbolic link"))
    }

    #[derive(Debug)]
    pub struct DirEntry {
        path: PathBuf,
        name: String,
        is_dir: bool,
    }
    impl DirEntry {
        pub fn path(&self) -> super::OutPathBuf {
            self.path.clone().into()
        }
        pub fn file_name(&self) -> OsString {
            OsString::from(&self.name)
        }
        pub fn file_type(&self) -> io::Result<FileType> {
            // answered from the listing where the file system says what an entry is (d_type); on
            // one that does not (DT_UNKNOWN: some network and older file systems) std falls back to
            // lstat, which can fail like any other metadata query (round 15, seeded m60)
            if world::with(|w| w.stat_fails_now()) {
                return Err(io::Error::from_raw_os_error(5));
            }
            Ok(FileType { is_dir: self.is_dir })
        }
        pub fn metadata(&self) -> io::Result<Metadata> {
            stat(&self.path)
        }
        /// `std::os::unix::fs::DirEntryExt::ino`
        pub fn ino(&self) -> u64 {
            ino_of(&write_key_of(&self.path))
        }
    }

    pub(crate) fn real_path(p: &Path) -> PathBuf {
        world::with(|w| w.absolute(p))
    }

    /// Only the repository's working tree is ever consulted for real (read-only: sources, manifests,
    /// the checked-in tables). Everything else a program may name — the temp directory, the home
    /// directory, `/proc` — is part of the simulated machine: it holds what the session's runs put
    /// there and nothing else, so that no run can see what happens to be on the real disk.
    fn inside_repo(p: &Path) -> bool {
        let abs = real_path(p);
        let mut parts: Vec<std::ffi::OsString> = vec![];
        for c in abs.components() {
            match c {
                std::path::Component::ParentDir => {
                    parts.pop();
                }
                std::path::Component::Normal(s) => parts.push(s.to_os_string()),
                _ => {}
            }
        }
        let root = world::with(|w| w.image.crate_dir.parent().map(|r| r.to_path_buf()).unwrap_or_default());
        let root_parts: Vec<std::ffi::OsString> = root
            .components()
            .filter_map(|c| match c {
                std::path::Component::Normal(s) => Some(s.to_os_string()),
                _ => None,
            })
            .collect();
        parts.len() >= root_parts.len() && parts[..root_parts.len()] == root_parts[..]
    }

    /// a directory of the simulated machine outside the repository: it exists if it is the temp
    /// directory (or above it) or if the session wrote something below it
    fn virtual_dir_exists(key: &str) -> bool {
        let key = key.trim_end_matches('/');
        if key.is_empty() || "/tmp".starts_with(key) {
            return true;
        }
        let prefix = format!("{}/", key);
        world::with(|w| w.written.keys().any(|k| k.starts_with(&prefix)))
    }

    pub struct ReadDir {
        entries: std::vec::IntoIter<DirEntry>,
        yielded: u64,
        _fd: Fd,
    }
    impl Iterator for ReadDir {
        type Item = io::Result<DirEntry>;
        fn next(&mut self) -> Option<Self::Item> {
            let idx = self.yielded;
            self.yielded += 1;
            let fault = world::with(|w| match w.hard {
                Some(h) if h.kind == world::HardKind::DirEntryErr && h.at == idx && !w.hard_fired => {
                    w.hard_fired = true;
                    w.event("hard_fault", h.kind as u64, idx);
                    true
                }
                _ => false,
            });
            if fault {
                return Some(Err(io::Error::new(io::ErrorKind::Other, "simulated EIO while listing")));
            }
            self.entries.next().map(Ok)
        }
    }

    /// files the session wrote (or deleted) directly below directory `key`
    fn overlay_children(key: &str, base: &mut Vec<(String, bool)>) {
        world::with(|w| {
            if w.written.is_empty() && w.removed.is_empty() {
                return;
            }
            let prefix = format!("{}/", key);
            base.retain(|(n, is_dir)| *is_dir || !w.removed.contains(&format!("{}{}", prefix, n)));
            for k in w.written.keys() {
                if let Some(rest) = k.strip_prefix(&prefix) {
                    if !rest.contains('/') && !base.iter().any(|(n, _)| n == rest) {
                        base.push((rest.to_string(), false));
                    }
                }
            }
            base.sort();
        });
    }

    pub fn read_dir<P: AsRef<ArgPath>>(p: P) -> io::Result<ReadDir> {
        let p: &Path = argp(&p);
        let p = p.as_ref();
        let key = world::with(|w| w.image.normalise(&w.absolute(p)));
        let (label, sorted): (String, Vec<(String, bool)>) = match key {
            Some(k) => {
                let children = world::with(|w| w.image.dirs.get(&k).cloned());
                match children {
                    Some(mut c) => {
                        overlay_children(&k, &mut c);
                        (k, c)
                    }
                    None => {
                        let is_file = world::with(|w| w.image.files.contains_key(&k));
                        return Err(if is_file {
                            io::Error::new(io::ErrorKind::Other, "Not a directory")
                        } else {
                            io::Error::new(io::ErrorKind::NotFound, "No such file or directory")
                        });
                    }
                }
            }
            None if !inside_repo(p) => {
                let wk = write_key_of(p);
                if !virtual_dir_exists(&wk) {
                    return Err(io::Error::new(io::ErrorKind::NotFound, "No such file or directory"));
                }
                let mut c = vec![];
                overlay_children(wk.trim_end_matches('/'), &mut c);
                (format!("<virtual>{}", p.display()), c)
            }
            None => {
                // outside the image: list the real directory, sorted, then let the simulator order it
                world::with(|w| w.stats.fs_escapes += 1);
                let mut c = vec![];
                let wk = write_key_of(p);
                match std::fs::read_dir(real_path(p)) {
                    Ok(rd) => {
                        for e in rd {
                            let e = e?;
                            let is_dir = e.path().is_dir();
                            c.push((e.file_name().to_string_lossy().into_owned(), is_dir));
                        }
                    }
                    Err(e) => {
                        // a directory that exists only as the parent of files the session wrote
                        let any = world::with(|w| w.written.keys().any(|k| k.starts_with(&format!("{}/", wk))));
                        if !any {
                            return Err(e);
                        }
                    }
                }
                c.sort();
                overlay_children(&wk, &mut c);
                (format!("<real>{}", p.display()), c)
            }
        };
        let order = world::with(|w| w.decide_read_dir(&label, sorted.len()));
        let entries: Vec<DirEntry> = order
            .iter()
            .map(|&i| {
                let (name, is_dir) = &sorted[i as usize];
                DirEntry {
                    path: p.join(name),
                    name: name.clone(),
                    is_dir: *is_dir,
                }
            })
            .collect();
        world::with(|w| {
            if w.collect {
                w.dir_orders
                    .push((label.clone(), entries.iter().map(|e| e.name.clone()).collect()));
            }
        });
        let fail = world::with(|w| match w.hard {
            Some(h) if h.kind == world::HardKind::ReadDirErr && !w.hard_fired => {
                w.hard_fired = true;
                w.event("hard_fault", h.kind as u64, 0);
                true
            }
            _ => false,
        });
        if fail {
            return Err(io::Error::new(io::ErrorKind::PermissionDenied, "simulated EACCES on read_dir"));
        }
        Ok(ReadDir {
            entries: entries.into_iter(),
            yielded: 0,
            _fd: Fd::open()?,
        })
    }

    fn fetch(p: &Path) -> io::Result<(String, Arc<Vec<u8>>)> {
        // a file this session wrote itself (temp file, cache, table written then re-read) is
        // served from the capture
        let wk = write_key_of(p);
        if let Some(d) = world::with(|w| w.written.get(&wk).cloned()) {
            return Ok((wk, Arc::new(d)));
        }
        if world::with(|w| w.removed.contains(&wk)) {
            return Err(io::Error::new(io::ErrorKind::NotFound, "No such file or directory"));
        }
        let key = world::with(|w| w.image.normalise(&w.absolute(p)));
        match key {
            Some(k) => {
                let f = world::with(|w| w.image.files.get(&k).cloned());
                match f {
                    Some(d) => Ok((k, d)),
                    None => {
                        let is_dir = world::with(|w| w.image.dirs.contains_key(&k));
                        Err(if is_dir {
                            io::Error::new(io::ErrorKind::Other, "Is a directory")
                        } else {
                            io::Error::new(io::ErrorKind::NotFound, "No such file or directory")
                        })
                    }
                }
            }
            None if !inside_repo(p) => Err(io::Error::new(io::ErrorKind::NotFound, "No such file or directory")),
            None => {
                world::with(|w| w.stats.fs_escapes += 1);
                let d = std::fs::read(real_path(p))?;
                Ok((format!("<real>{}", p.display()), Arc::new(d)))
            }
        }
    }

    /// content of a file as this run sees it: in the non-gating fault exploration the planned
    /// read / open fails or delivers torn or corrupt content
    fn content_with_hard_fault(key: &str, d: &Arc<Vec<u8>>) -> io::Result<Arc<Vec<u8>>> {
        // (round 16) a file that failed with the persistent kind of read error keeps failing
        if world::with(|w| w.eio_path.as_deref() == Some(key)) {
            world::with(|w| {
                w.reads_seen += 1;
                w.event("hard_fault_again", 0, 0);
            });
            return Err(io::Error::from_raw_os_error(5));
        }
        let fault = world::with(|w| {
            w.decide_read_fault();
            let idx = w.reads_seen;
            w.reads_seen += 1;
            match w.hard {
                Some(h) if h.at == idx && !w.hard_fired => match h.kind {
                    world::HardKind::ReadEio
                    | world::HardKind::ReadEnoent
                    | world::HardKind::Truncated
                    | world::HardKind::BitFlip => {
                        w.hard_fired = true;
                        w.event("hard_fault", h.kind as u64, idx);
                        Some(h)
                    }
                    _ => None,
                },
                _ => None,
            }
        });
        let Some(h) = fault else { return Ok(d.clone()) };
        let mut data = (**d).clone();
        match h.kind {
            world::HardKind::ReadEio => {
                world::with(|w| {
                    if w.gating_fault {
                        w.stats.read_faults_injected += 1;
                        crate::isolate::child_fault_notice();
                    }
                    if h.salt == world::PERSISTENT_EIO {
                        // a bad sector, a file whose permissions are wrong: every later read of
                        // this file fails too (a retry loop does not help)
                        w.eio_path = Some(key.to_string());
                    }
                });
                // EIO
                return Err(io::Error::from_raw_os_error(5));
            }
            world::HardKind::ReadEnoent => return Err(io::Error::new(io::ErrorKind::NotFound, "simulated ENOENT")),
            world::HardKind::Truncated => {
                let n = if data.is_empty() { 0 } else { (h.salt % data.len() as u64) as usize };
                data.truncate(n);
            }
            world::HardKind::BitFlip => {
                if !data.is_empty() {
                    let i = (h.salt % data.len() as u64) as usize;
                    data[i] ^= 1 << ((h.salt >> 32) % 8);
                }
            }
            _ => {}
        }
        Ok(Arc::new(data))
    }

    pub fn read<P: AsRef<ArgPath>>(p: P) -> io::Result<Vec<u8>> {
        let p: &Path = argp(&p);
        let (k, d) = fetch(p.as_ref())?;
        let data = content_with_hard_fault(&k, &d)?;
        world::with(|w| {
            w.stats.whole_file_reads += 1;
            w.stats.bytes_read += data.len() as u64;
            let mut pd = Fnv::default();
            pd.str(&k);
            w.event("read", pd.0, data.len() as u64);
        });
        Ok((*data).clone())
    }

    pub fn read_to_string<P: AsRef<ArgPath>>(p: P) -> io::Result<String> {
        let p: &Path = argp(&p);
        let v = read(p)?;
        String::from_utf8(v).map_err(|_| {
            io::Error::new(io::ErrorKind::InvalidData, "stream did not contain valid UTF-8")
        })
    }

    /// Simulated file. Opened for reading: with a non-zero `io_seed` its `read` delivers short
    /// reads and `ErrorKind::Interrupted`, both of which `Read`'s contract allows at any time.
    /// Opened for writing: bytes go to the session's captured files, every `write` call is a crash
    /// point and follows the stream's short-write / EINTR plan.
    pub struct File {
        data: Arc<Vec<u8>>,
        /// the file offset: one per open file description, shared by `try_clone`d handles and by
        /// reads and writes, as in POSIX
        cur: Arc<std::sync::atomic::AtomicUsize>,
        /// opened in append mode: writes go to the end whatever the offset
        append: bool,
        /// Some(key) = opened for writing
        write_key: Option<String>,
        /// the handle's stream plans (short reads / writes, EINTR): behind a lock because std
        /// implements `Read`, `Write` and `Seek` for `&File` too (round 15, control `u15_r3`)
        st: std::sync::Mutex<StreamState>,
        _fd: Fd,
        _writer: Option<Writer>,
        /// (round 13) 1 / 2: this handle is a duplicate of the stdout / stderr descriptor
        /// (`stdout().as_fd().try_clone_to_owned()` turned into a `File`)
        stdio: u8,
    }

    #[derive(Default)]
    struct StreamState {
        rng: Option<Rng>,
        consecutive_eintr: u32,
        /// short writes / EINTR plan of a file opened for writing
        wrng: Option<Rng>,
        consecutive_weintr: u32,
    }
    impl StreamState {
        fn new(rng: Option<Rng>, wrng: Option<Rng>) -> std::sync::Mutex<StreamState> {
            std::sync::Mutex::new(StreamState {
                rng,
                consecutive_eintr: 0,
                wrng,
                consecutive_weintr: 0,
            })
        }
    }

    pub(crate) fn write_key_of(p: &Path) -> String {
        if let Some(k) = world::with(|w| w.image.normalise(&w.absolute(p))) {
            return k;
        }
        // one key per file whatever the spelling: absolute below the crate directory -> relative
        let crate_dir = world::with(|w| w.image.crate_dir.clone());
        let abs = world::with(|w| w.absolute(p));
        let p: &Path = &abs;
        let rel: PathBuf = match p.strip_prefix(&crate_dir) {
            Ok(r) => r.to_path_buf(),
            Err(_) => p.to_path_buf(),
        };
        let mut parts: Vec<String> = vec![];
        let mut absolute = false;
        for c in rel.components() {
            match c {
                std::path::Component::CurDir => {}
                std::path::Component::ParentDir => {
                    if parts.pop().is_none() {
                        parts.push("..".into());
                    }
                }
                std::path::Component::Normal(s) => parts.push(s.to_string_lossy().into_owned()),
                std::path::Component::RootDir => absolute = true,
                std::path::Component::Prefix(_) => {}
            }
        }
        let k = parts.join("/");
        if absolute {
            format!("/{}", k)
        } else {
            k
        }
    }

    fn path_exists(key: &str, p: &Path) -> bool {
        let in_world = world::with(|w| {
            if w.written.contains_key(key) {
                return Some(true);
            }
            if w.removed.contains(key) {
                return Some(false);
            }
            match w.image.normalise(&w.absolute(p)) {
                Some(k) => Some(w.image.files.contains_key(&k) || w.image.dirs.contains_key(&k)),
                None => None,
            }
        });
        match in_world {
            Some(b) => b,
            None if !inside_repo(p) => virtual_dir_exists(key),
            None => {
                world::with(|w| w.stats.fs_escapes += 1);
                real_path(p).exists()
            }
        }
    }

    /// `fs::write`: captured, never touches the real tree. Not atomic: the file is truncated, then
    /// filled — a crash in between leaves it empty or partly written.
    pub fn write<P: AsRef<ArgPath>, C: AsRef<[u8]>>(p: P, contents: C) -> io::Result<()> {
        let p: &Path = argp(&p);
        let key = write_key_of(p.as_ref());
        let mut c = contents.as_ref().to_vec();
        // (round 11) a full device: the file ends up with what fitted, the call fails with ENOSPC
        let (fits, full) = world::with(|w| w.admit_write(c.len()));
        if full {
            c.truncate(fits);
        }
        maybe_intrude();
        let gate = world::with(|w| {
            let mut d = Fnv::default();
            d.bytes(&c);
            let mut pd = Fnv::default();
            pd.str(&key);
            w.event("fs_write", pd.0, d.0);
            w.gate(true, Some(c.len()))
        });
        let (n, die) = match gate {
            Gate::Gone => return Ok(()),
            Gate::CrashBefore => crash(),
            Gate::Go => (c.len(), false),
            Gate::CrashAfter => (c.len(), true),
            Gate::Torn(n) => (n, true),
        };
        world::with(|w| {
            w.touch(&key);
            w.removed.remove(&key);
            w.written.insert(key, c[..n.min(c.len())].to_vec());
        });
        if die {
            crash();
        }
        if full {
            return Err(super::enospc());
        }
        Ok(())
    }

    /// `fs::rename`: moves a file the session wrote (write-to-temp-then-rename) or an image file;
    /// atomic with respect to a crash (old or new, never in between), durable like any other
    /// un-synced change
    pub fn rename<P: AsRef<ArgPath>, Q: AsRef<ArgPath>>(from: P, to: Q) -> io::Result<()> {
        let from: &Path = argp(&from);
        let to: &Path = argp(&to);
        let (kf, kt) = (write_key_of(from.as_ref()), write_key_of(to.as_ref()));
        world::with(|w| {
            let mut pd = Fnv::default();
            pd.str(&kf);
            pd.str(&kt);
            w.event("rename", pd.0, 0);
        });
        let src: Option<Vec<u8>> = world::with(|w| {
            w.written.get(&kf).cloned().or_else(|| {
                if w.removed.contains(&kf) {
                    None
                } else {
                    w.image.files.get(&kf).map(|d| (**d).clone())
                }
            })
        });
        let Some(data) = src else {
            return Err(io::Error::new(io::ErrorKind::NotFound, "No such file or directory (rename source)"));
        };
        let (apply, die) = gate_op();
        if apply {
            world::with(|w| {
                let was_synced = w.synced.contains(&kf);
                w.touch(&kf);
                w.touch(&kt);
                // handles open on the file that `to` named keep that file (now nameless); handles
                // open on `from` follow it to its new name
                w.ino_unlink(&kt);
                w.ino_rename(&kf, &kt);
                w.written.remove(&kf);
                w.mtimes.remove(&kf);
                if w.image.files.contains_key(&kf) {
                    w.removed.insert(kf.clone());
                }
                w.removed.remove(&kt);
                w.written.insert(kt.clone(), data);
                if was_synced {
                    w.synced.insert(kt.clone());
                }
            });
        }
        if die {
            crash();
        }
        Ok(())
    }

    pub fn remove_file<P: AsRef<ArgPath>>(p: P) -> io::Result<()> {
        let p: &Path = argp(&p);
        let k = write_key_of(p.as_ref());
        world::with(|w| {
            let mut pd = Fnv::default();
            pd.str(&k);
            w.event("remove_file", pd.0, 0);
        });
        if !path_exists(&k, p.as_ref()) {
            return Err(io::Error::new(io::ErrorKind::NotFound, "No such file or directory"));
        }
        let (apply, die) = gate_op();
        if apply {
            world::with(|w| {
                w.touch(&k);
                w.ino_unlink(&k);
                w.written.remove(&k);
                w.mtimes.remove(&k);
                w.removed.insert(k.clone());
            });
        }
        if die {
            crash();
        }
        Ok(())
    }

    pub fn create_dir<P: AsRef<ArgPath>>(_p: P) -> io::Result<()> {
        Ok(())
    }
    pub fn create_dir_all<P: AsRef<ArgPath>>(_p: P) -> io::Result<()> {
        Ok(())
    }
    pub fn remove_dir<P: AsRef<ArgPath>>(_p: P) -> io::Result<()> {
        Ok(())
    }
    /// removes what the session wrote below the directory
    pub fn remove_dir_all<P: AsRef<ArgPath>>(p: P) -> io::Result<()> {
        let p: &Path = argp(&p);
        let k = write_key_of(p.as_ref());
        let (apply, die) = gate_op();
        if apply {
            world::with(|w| {
                let prefix = format!("{}/", k);
                let keys: Vec<String> = w.written.keys().filter(|x| x.starts_with(&prefix)).cloned().collect();
                for x in keys {
                    w.touch(&x);
                    w.written.remove(&x);
                    w.mtimes.remove(&x);
                }
            });
        }
        if die {
            crash();
        }
        Ok(())
    }

    pub fn copy<P: AsRef<ArgPath>, Q: AsRef<ArgPath>>(from: P, to: Q) -> io::Result<u64> {
        let from: &Path = argp(&from);
        let to: &Path = argp(&to);
        let data = read(from)?;
        let n = data.len() as u64;
        write(to, data)?;
        Ok(n)
    }

    /// `fs::DirBuilder` (round 17, control `w17_r1`: the real one made a real directory in the
    /// repository - the working-tree guard ended the check with exit 2)
    #[derive(Debug, Default)]
    pub struct DirBuilder {
        recursive: bool,
    }
    impl DirBuilder {
        pub fn new() -> DirBuilder {
            DirBuilder::default()
        }
        pub fn recursive(&mut self, recursive: bool) -> &mut Self {
            self.recursive = recursive;
            self
        }
        /// `std::os::unix::fs::DirBuilderExt::mode`: permission bits are not modelled
        pub fn mode(&mut self, _mode: u32) -> &mut Self {
            self
        }
        pub fn create<P: AsRef<ArgPath>>(&self, p: P) -> io::Result<()> {
            if self.recursive {
                create_dir_all(p)
            } else {
                create_dir(p)
            }
        }
    }

    /// `fs::hard_link` (round 17, control `w17_r2`: a lock file created by linking a complete
    /// private file): the new name must not exist (that is what makes it a lock); the two names
    /// then hold the same bytes (that later writes through one name show under the other is not
    /// modelled)
    pub fn hard_link<P: AsRef<ArgPath>, Q: AsRef<ArgPath>>(original: P, link: Q) -> io::Result<()> {
        let original: &Path = argp(&original);
        let link: &Path = argp(&link);
        if stat_inner(link).is_ok() {
            return Err(io::Error::from(io::ErrorKind::AlreadyExists));
        }
        let data = read(original)?;
        write(link, data)
    }

    #[derive(Clone, Debug, Default)]
    pub struct OpenOptions {
        read: bool,
        write: bool,
        append: bool,
        truncate: bool,
        create: bool,
        create_new: bool,
    }
    impl OpenOptions {
        pub fn new() -> Self {
            Self::default()
        }
        pub fn read(&mut self, v: bool) -> &mut Self {
            self.read = v;
            self
        }
        pub fn write(&mut self, v: bool) -> &mut Self {
            self.write = v;
            self
        }
        pub fn append(&mut self, v: bool) -> &mut Self {
            self.append = v;
            self
        }
        pub fn truncate(&mut self, v: bool) -> &mut Self {
            self.truncate = v;
            self
        }
        pub fn create(&mut self, v: bool) -> &mut Self {
            self.create = v;
            self
        }
        pub fn create_new(&mut self, v: bool) -> &mut Self {
            self.create_new = v;
            self
        }
        /// `std::os::unix::fs::OpenOptionsExt`: permissions and flags are not modelled
        pub fn mode(&mut self, _m: u32) -> &mut Self {
            self
        }
        pub fn custom_flags(&mut self, _f: i32) -> &mut Self {
            self
        }
        pub fn open<P: AsRef<ArgPath>>(&self, p: P) -> io::Result<File> {
            let p: &Path = argp(&p);
            if self.write || self.append {
                let key = write_key_of(p.as_ref());
                let exists = path_exists(&key, p.as_ref());
                if self.create_new && exists {
                    return Err(io::Error::new(io::ErrorKind::AlreadyExists, "File exists"));
                }
                if !exists && !self.create && !self.create_new {
                    return Err(io::Error::new(io::ErrorKind::NotFound, "No such file or directory"));
                }
                File::create_with(p.as_ref(), self.truncate && !self.append, self.append)
            } else {
                File::open(p)
            }
        }
    }

    impl File {
        pub fn open<P: AsRef<ArgPath>>(p: P) -> io::Result<File> {
            let p: &Path = argp(&p);
            let (k, d) = fetch(p.as_ref())?;
            let d = content_with_hard_fault(&k, &d)?;
            let fd = Fd::open()?;
            let io_seed = world::with(|w| w.decide_open(&k));
            Ok(File {
                _fd: fd,
                _writer: None,
                stdio: 0,
                data: d,
                cur: Arc::new(std::sync::atomic::AtomicUsize::new(0)),
                append: false,
                st: StreamState::new(if io_seed == 0 { None } else { Some(Rng::new(io_seed)) }, None),
                write_key: None,
            })
        }
        /// `File::create`: captured, never touches the real tree
        pub fn create<P: AsRef<ArgPath>>(p: P) -> io::Result<File> {
            let p: &Path = argp(&p);
            File::create_with(p.as_ref(), true, false)
        }
        pub fn create_new<P: AsRef<ArgPath>>(p: P) -> io::Result<File> {
            let p: &Path = argp(&p);
            OpenOptions::new().write(true).create_new(true).open(p)
        }
        pub fn options() -> OpenOptions {
            OpenOptions::new()
        }
        /// where this handle's content lives now: the file may have been renamed or unlinked since
        /// it was opened
        fn cur_key(&self) -> Option<String> {
            let orig = self.write_key.as_ref()?;
            Some(match &self._writer {
                Some(wr) => world::with(|w| w.ino_key(wr.0, orig)),
                None => orig.clone(),
            })
        }
        fn pos(&self) -> usize {
            self.cur.load(std::sync::atomic::Ordering::SeqCst)
        }
        fn set_pos(&self, n: usize) {
            self.cur.store(n, std::sync::atomic::Ordering::SeqCst)
        }
        fn create_with(p: &Path, truncate: bool, append: bool) -> io::Result<File> {
            let key = write_key_of(p);
            let fd = Fd::open()?;
            world::with(|w| {
                let mut pd = Fnv::default();
                pd.str(&key);
                w.event("create", pd.0, truncate as u64);
            });
            // creating / truncating is a mutation of its own (an existing file is emptied)
            let (apply, die) = gate_op();
            if apply {
                world::with(|w| {
                    w.touch(&key);
                    w.removed.remove(&key);
                    if !w.written.contains_key(&key) {
                        // opening an image file (or a real file) for writing without truncation
                        // starts from its content
                        let base = if truncate {
                            vec![]
                        } else {
                            w.image.files.get(&key).map(|d| (**d).clone()).unwrap_or_default()
                        };
                        w.written.insert(key.clone(), base);
                    } else if truncate {
                        w.written.get_mut(&key).unwrap().clear();
                    }
                });
            }
            if die {
                crash();
            }
            let io_seed = world::with(|w| w.decide_stream(&format!("<write>{}", key), true));
            Ok(File {
                _fd: fd,
                _writer: Some(Writer::open(&key)),
                stdio: 0,
                data: Arc::new(vec![]),
                cur: Arc::new(std::sync::atomic::AtomicUsize::new(0)),
                append,
                st: StreamState::new(None, if io_seed == 0 { None } else { Some(Rng::new(io_seed)) }),
                write_key: Some(key),
            })
        }
        pub fn metadata(&self) -> io::Result<Metadata> {
            match &self.cur_key() {
                Some(k) => world::with(|w| {
                    Ok(Metadata {
                        is_dir: false,
                        len: w.written.get(k).map(|d| d.len()).unwrap_or(0) as u64,
                        mtime_ns: w.mtimes.get(k).copied().unwrap_or(w.clock_ns),
                        ino: 0,
                    })
                }),
                None => Ok(Metadata {
                    is_dir: false,
                    len: self.data.len() as u64,
                    mtime_ns: world::with(|w| w.image_mtime("<open file>")),
                    ino: 0,
                }),
            }
        }
        /// the file's current content becomes durable: a later power loss cannot take it back
        pub fn sync_all(&self) -> io::Result<()> {
            if let Some(key) = &self.cur_key() {
                world::with(|w| {
                    if !w.frozen {
                        w.event("fsync", 0, 0);
                        w.mark_synced(key);
                    }
                });
            }
            Ok(())
        }
        pub fn sync_data(&self) -> io::Result<()> {
            self.sync_all()
        }
        pub fn set_len(&self, n: u64) -> io::Result<()> {
            if self.cur_key().is_some() {
                let (apply, die) = gate_op();
                // (the name is looked up after a second instance may have renamed the file)
                let key = &self.cur_key().unwrap_or_default();
                if apply {
                    world::with(|w| {
                        w.touch(key);
                        w.written.entry(key.clone()).or_default().resize(n as usize, 0);
                    });
                }
                if die {
                    crash();
                }
            }
            Ok(())
        }
        /// `std::os::unix::fs::FileExt::read_at`: positioned read, may be short or interrupted like
        /// any other read of this stream
        pub fn read_at(&self, buf: &mut [u8], offset: u64) -> io::Result<usize> {
            let data: Arc<Vec<u8>> = match &self.cur_key() {
                Some(k) => Arc::new(world::with(|w| w.written.get(k).cloned().unwrap_or_default())),
                None => self.data.clone(),
            };
            let pos = (offset as usize).min(data.len());
            let mut n = (data.len() - pos).min(buf.len());
            let plan_draws = self.st.lock().unwrap_or_else(|e| e.into_inner()).rng.as_ref().map(|r| r.draws);
            if plan_draws.is_some() && n > 1 {
                // a plan derived from the stream's seed and the offset (the handle is shared)
                let mut r = Rng::new(plan_draws.unwrap_or(0) ^ offset.wrapping_mul(0x9E37_79B9_7F4A_7C15) ^ 0x51ed);
                if r.chance(1, 2) {
                    n = 1 + r.below(n as u64 - 1) as usize;
                    world::with(|w| w.stats.short_reads += 1);
                }
            }
            buf[..n].copy_from_slice(&data[pos..pos + n]);
            world::with(|w| {
                w.stats.bytes_read += n as u64;
                w.event("pread", offset, n as u64);
            });
            Ok(n)
        }
        pub fn read_exact_at(&self, mut buf: &mut [u8], mut offset: u64) -> io::Result<()> {
            while !buf.is_empty() {
                match self.read_at(buf, offset) {
                    Ok(0) => return Err(io::Error::new(io::ErrorKind::UnexpectedEof, "failed to fill whole buffer")),
                    Ok(n) => {
                        let tmp = buf;
                        buf = &mut tmp[n..];
                        offset += n as u64;
                    }
                    Err(e) if e.kind() == io::ErrorKind::Interrupted => {}
                    Err(e) => return Err(e),
                }
            }
            Ok(())
        }
        /// `FileExt::write_at`
        pub fn write_at(&self, buf: &[u8], offset: u64) -> io::Result<usize> {
            if self.cur_key().is_none() {
                return Err(io::Error::new(io::ErrorKind::PermissionDenied, "file not opened for writing"));
            }
            maybe_intrude();
            let Some(key) = self.cur_key() else { return Ok(buf.len()) };
            let gate = world::with(|w| {
                let mut d = Fnv::default();
                d.bytes(buf);
                w.event("pwrite", d.0, offset);
                w.gate(true, Some(buf.len()))
            });
            let (m, die) = match gate {
                Gate::Gone => return Ok(buf.len()),
                Gate::CrashBefore => crash(),
                Gate::Go => (buf.len(), false),
                Gate::CrashAfter => (buf.len(), true),
                Gate::Torn(m) => (m.min(buf.len()), true),
            };
            let data = &buf[..m];
            world::with(|w| {
                w.touch(&key);
                let f = w.written.entry(key).or_default();
                let at = offset as usize;
                if f.len() < at {
                    f.resize(at, 0);
                }
                let overlap = (f.len() - at).min(data.len());
                f[at..at + overlap].copy_from_slice(&data[..overlap]);
                f.extend_from_slice(&data[overlap..]);
            });
            if die {
                crash();
            }
            Ok(buf.len())
        }
        pub fn write_all_at(&self, buf: &[u8], offset: u64) -> io::Result<()> {
            self.write_at(buf, offset).map(|_| ())
        }
        pub fn try_clone(&self) -> io::Result<File> {
            Ok(File {
                _fd: Fd::open()?,
                _writer: self._writer.as_ref().map(|w| w.dup()),
                stdio: self.stdio,
                data: self.data.clone(),
                cur: self.cur.clone(),
                append: self.append,
                st: {
                    let st = self.st.lock().unwrap_or_else(|e| e.into_inner());
                    StreamState::new(st.rng.clone(), st.wrng.clone())
                },
                write_key: self.write_key.clone(),
            })
        }
    }

    /// `std::fs::TryLockError`
    pub use std::fs::TryLockError;
    impl File {
        fn lock_ino(&self) -> Option<u64> {
            self._writer.as_ref().map(|w| w.0)
        }
        fn take_lock(&self, exclusive: bool, wait: bool) -> Result<(), TryLockError> {
            let Some(ino) = self.lock_ino() else { return Ok(()) }; // read-only handles: not modelled
            match world::with(|w| w.flock(ino, exclusive)) {
                Ok(()) => Ok(()),
                Err(()) if !wait => Err(TryLockError::WouldBlock),
                Err(()) => {
                    // The holder is the running instance, which goes on only after this (second)
                    // instance is done: waiting would never end. As far as an observer can tell the
                    // second instance is still waiting when the first one finishes: it is gone.
                    crash()
                }
            }
        }
        /// permission bits are not modelled (round 17, controls `w17_r1`, `w17_r2`)
        pub fn set_permissions(&self, _perm: std::fs::Permissions) -> io::Result<()> {
            Ok(())
        }
        /// `File::set_modified` (round 17, control `v16_r3`: cache entries refreshed on use)
        pub fn set_modified(&self, t: super::simtime::SystemTime) -> io::Result<()> {
            match self.cur_key() {
                Some(key) => {
                    world::with(|w| {
                        w.mtimes.insert(key, t.nanos());
                    });
                    Ok(())
                }
                // a handle opened for reading on a file of the image: its time is the checkout's
                None => Ok(()),
            }
        }
        /// `File::lock`: exclusive advisory lock, waits
        pub fn lock(&self) -> io::Result<()> {
            self.take_lock(true, true).map_err(|_| io::Error::from(io::ErrorKind::WouldBlock))
        }
        pub fn lock_shared(&self) -> io::Result<()> {
            self.take_lock(false, true).map_err(|_| io::Error::from(io::ErrorKind::WouldBlock))
        }
        pub fn try_lock(&self) -> Result<(), TryLockError> {
            self.take_lock(true, false)
        }
        pub fn try_lock_shared(&self) -> Result<(), TryLockError> {
            self.take_lock(false, false)
        }
        pub fn unlock(&self) -> io::Result<()> {
            if let Some(ino) = self.lock_ino() {
                world::with(|w| w.funlock(ino));
            }
            Ok(())
        }
    }

    impl io::Read for File {
        fn read(&mut self, buf: &mut [u8]) -> io::Result<usize> {
            self.do_read(buf)
        }
    }
    impl io::Read for &File {
        fn read(&mut self, buf: &mut [u8]) -> io::Result<usize> {
            self.do_read(buf)
        }
    }
    impl io::Write for &File {
        fn write(&mut self, buf: &[u8]) -> io::Result<usize> {
            self.do_write(buf)
        }
        fn flush(&mut self) -> io::Result<()> {
            Ok(())
        }
    }
    impl io::Seek for &File {
        fn seek(&mut self, s: io::SeekFrom) -> io::Result<u64> {
            self.do_seek(s)
        }
    }
    impl File {
        fn do_read(&self, buf: &mut [u8]) -> io::Result<usize> {
            if let Some(key) = &self.cur_key() {
                // a handle opened read+write: read what the file holds now
                let cur = world::with(|w| w.written.get(key).cloned().unwrap_or_default());
                let pos = self.pos().min(cur.len());
                let n = (cur.len() - pos).min(buf.len());
                buf[..n].copy_from_slice(&cur[pos..pos + n]);
                self.set_pos(pos + n);
                return Ok(n);
            }
            let at = self.pos().min(self.data.len());
            let remaining = self.data.len() - at;
            let mut n = remaining.min(buf.len());
            let mut st = self.st.lock().unwrap_or_else(|e| e.into_inner());
            let st = &mut *st;
            if let Some(rng) = st.rng.as_mut() {
                if n > 0 && st.consecutive_eintr < 3 && rng.chance(1, 8) {
                    st.consecutive_eintr += 1;
                    world::with(|w| {
                        w.stats.eintr += 1;
                        w.event("eintr", at as u64, 0);
                    });
                    return Err(io::Error::new(io::ErrorKind::Interrupted, "simulated EINTR"));
                }
                st.consecutive_eintr = 0;
                if n > 1 && rng.chance(1, 2) {
                    n = 1 + rng.below(n as u64 - 1) as usize;
                    world::with(|w| w.stats.short_reads += 1);
                }
            }
            buf[..n].copy_from_slice(&self.data[at..at + n]);
            self.set_pos(at + n);
            world::with(|w| {
                w.stats.bytes_read += n as u64;
                w.event("fread", (at + n) as u64, n as u64);
            });
            Ok(n)
        }
    }

    impl File {
        /// descriptor numbers are not modelled beyond the standard streams: a stable fake
        pub(crate) fn fake_fd_number(&self) -> i32 {
            match self.stdio {
                1 | 2 => self.stdio as i32,
                _ => 3 + self._writer.as_ref().map(|w| (w.0 % 997) as i32).unwrap_or(0),
            }
        }
        /// a duplicate of the simulated process's stdout (1) or stderr (2) descriptor as a `File`
        pub(crate) fn stdio_dup(which: u8) -> io::Result<File> {
            Ok(File {
                _fd: Fd::open()?,
                _writer: None,
                stdio: which,
                data: Arc::new(vec![]),
                cur: Arc::new(std::sync::atomic::AtomicUsize::new(0)),
                append: true,
                st: StreamState::new(None, None),
                write_key: None,
            })
        }
    }

    impl io::Write for File {
        fn write(&mut self, buf: &[u8]) -> io::Result<usize> {
            self.do_write(buf)
        }
        fn flush(&mut self) -> io::Result<()> {
            Ok(())
        }
    }
    impl File {
        fn do_write(&self, buf: &[u8]) -> io::Result<usize> {
            match self.stdio {
                1 => return super::simio::put(buf),
                2 => {
                    world::with(|w| w.stats.stderr_prints += 1);
                    return Ok(buf.len());
                }
                _ => {}
            }
            if self.cur_key().is_none() {
                return Err(io::Error::new(io::ErrorKind::PermissionDenied, "file not opened for writing"));
            }
            let n = {
                let mut st = self.st.lock().unwrap_or_else(|e| e.into_inner());
                let st = &mut *st;
                match super::simio::plan_write(&mut st.wrng, &mut st.consecutive_weintr, buf.len()) {
                    Ok(n) => n,
                    Err(e) => return Err(e),
                }
            };
            // (round 11) a full device takes a prefix (short write), then nothing (ENOSPC)
            let n = {
                let (fits, full) = world::with(|w| w.admit_write(n));
                if full && fits == 0 {
                    return Err(super::enospc());
                }
                fits
            };
            maybe_intrude();
            // (round 11) the name under which the inode lives is looked up *after* a second
            // instance may have run: it may have renamed the file this handle is open on (control
            // `s10`: the stale name sent the rest of the writes to a new file of the old name and
            // at offset 0 — a corruption no kernel produces)
            let Some(key) = self.cur_key() else { return Ok(n) };
            let gate = world::with(|w| {
                let mut d = Fnv::default();
                d.bytes(&buf[..n]);
                w.event("fwrite", d.0, n as u64);
                w.gate(true, Some(n))
            });
            let (m, die) = match gate {
                Gate::Gone => return Ok(n),
                Gate::CrashBefore => crash(),
                Gate::Go => (n, false),
                Gate::CrashAfter => (n, true),
                Gate::Torn(m) => (m.min(n), true),
            };
            let data = &buf[..m];
            let wpos = if self.append { None } else { Some(self.pos()) };
            let end = world::with(|w| {
                w.touch(&key);
                let f = w.written.entry(key).or_default();
                let at = wpos.unwrap_or(f.len());
                if f.len() < at {
                    // the file was truncated under this handle: writing past the end leaves a hole
                    f.resize(at, 0);
                }
                let overlap = (f.len() - at).min(data.len());
                f[at..at + overlap].copy_from_slice(&data[..overlap]);
                f.extend_from_slice(&data[overlap..]);
                at + data.len()
            });
            if !self.append {
                self.set_pos(end);
            }
            if die {
                crash();
            }
            Ok(n)
        }
    }

    impl io::Seek for File {
        fn seek(&mut self, s: io::SeekFrom) -> io::Result<u64> {
            self.do_seek(s)
        }
    }
    impl File {
        fn do_seek(&self, s: io::SeekFrom) -> io::Result<u64> {
            if let Some(key) = &self.cur_key() {
                let len = world::with(|w| w.written.get(key).map(|d| d.len()).unwrap_or(0));
                let cur = if self.append { len } else { self.pos() };
                let new = match s {
                    io::SeekFrom::Start(o) => o as i128,
                    io::SeekFrom::End(o) => len as i128 + o as i128,
                    io::SeekFrom::Current(o) => cur as i128 + o as i128,
                };
                if new < 0 {
                    return Err(io::Error::new(io::ErrorKind::InvalidInput, "negative seek"));
                }
                self.set_pos(new as usize);
                return Ok(new as u64);
            }
            let new = match s {
                io::SeekFrom::Start(o) => o as i128,
                io::SeekFrom::End(o) => self.data.len() as i128 + o as i128,
                io::SeekFrom::Current(o) => self.pos() as i128 + o as i128,
            };
            if new < 0 {
                return Err(io::Error::new(io::ErrorKind::InvalidInput, "negative seek"));
            }
            self.set_pos((new as usize).min(self.data.len()));
            Ok(self.pos() as u64)
        }
    }
}

// =============================================================================================
// stdout / stderr handles, environment, process exit, clock
// =============================================================================================
pub mod simio {
    use crate::rng::Rng;
    use crate::world;
    use std::io;

    /// Shared by every output stream: how many bytes does this `write` call accept?
    /// With a plan, a call may be interrupted (at most three times in a row) or accept only a
    /// prefix (at least one byte) — both legal under `Write`'s contract, and what `write_all`
    /// exists for.
    pub fn plan_write(rng: &mut Option<Rng>, consecutive_eintr: &mut u32, len: usize) -> io::Result<usize> {
        let Some(r) = rng.as_mut() else { return Ok(len) };
        if len == 0 {
            return Ok(0);
        }
        if *consecutive_eintr < 3 && r.chance(1, 10) {
            *consecutive_eintr += 1;
            world::with(|w| {
                w.stats.write_eintr += 1;
                w.event("weintr", len as u64, 0);
            });
            return Err(io::Error::new(io::ErrorKind::Interrupted, "simulated EINTR on write"));
        }
        *consecutive_eintr = 0;
        if len > 1 && r.chance(1, 3) {
            let n = 1 + r.below(len as u64 - 1) as usize;
            world::with(|w| w.stats.short_writes += 1);
            return Ok(n);
        }
        Ok(len)
    }

    /// (round 17) The simulated process's standard input: nothing is connected to it (`< /dev/null`,
    /// the way a build script or CI starts a tool): every read is end-of-file at once. The real
    /// handle would have been the simulator's own - a read from a terminal or an open pipe there
    /// blocks the one OS thread all simulated threads share.
    pub struct Stdin;
    pub struct StdinLock<'a>(std::marker::PhantomData<&'a ()>);
    pub fn stdin() -> Stdin {
        Stdin
    }
    impl Stdin {
        pub fn lock(&self) -> StdinLock<'static> {
            StdinLock(std::marker::PhantomData)
        }
        pub fn read_line(&self, _buf: &mut String) -> io::Result<usize> {
            Ok(0)
        }
        pub fn lines(self) -> io::Lines<StdinLock<'static>> {
            io::BufRead::lines(self.lock())
        }
        pub fn is_terminal(&self) -> bool {
            false
        }
    }
    impl io::Read for Stdin {
        fn read(&mut self, _buf: &mut [u8]) -> io::Result<usize> {
            Ok(0)
        }
    }
    impl io::Read for StdinLock<'_> {
        fn read(&mut self, _buf: &mut [u8]) -> io::Result<usize> {
            Ok(0)
        }
    }
    impl io::BufRead for StdinLock<'_> {
        fn fill_buf(&mut self) -> io::Result<&[u8]> {
            Ok(&[])
        }
        fn consume(&mut self, _amt: usize) {}
    }
    impl StdinLock<'_> {
        pub fn is_terminal(&self) -> bool {
            false
        }
    }

    pub struct Stdout;
    /// like std's, generic over the lifetime of the handle it locks
    pub struct StdoutLock<'a>(std::marker::PhantomData<&'a ()>);
    pub struct StderrLock<'a>(std::marker::PhantomData<&'a ()>);
    pub fn stdout() -> Stdout {
        Stdout
    }
    impl Stdout {
        pub fn lock(&self) -> StdoutLock<'static> {
            StdoutLock(std::marker::PhantomData)
        }
        /// `IsTerminal`: the generators' output is redirected into the table file (the documented
        /// workflow), never a terminal
        pub fn is_terminal(&self) -> bool {
            false
        }
    }
    impl StdoutLock<'_> {
        pub fn is_terminal(&self) -> bool {
            false
        }
    }
    impl StderrLock<'_> {
        pub fn is_terminal(&self) -> bool {
            false
        }
    }
    /// a `write` on the stdout handle (not `println!`, which is `write_all` underneath)
    pub(crate) fn put(buf: &[u8]) -> io::Result<usize> {
        let (mut rng, mut ce) = world::with(|w| {
            if w.stdout_plan.is_none() {
                let s = w.decide_stream("<stdout>", true);
                w.stdout_plan = Some(if s == 0 { None } else { Some(Rng::new(s)) });
            }
            (w.stdout_plan.take().unwrap(), w.stdout_eintr)
        });
        let r = plan_write(&mut rng, &mut ce, buf.len());
        world::with(|w| {
            w.stdout_plan = Some(rng);
            w.stdout_eintr = ce;
        });
        let n = r?;
        // (round 11) a full device takes a prefix (short write), then nothing (ENOSPC)
        let (fits, full) = world::with(|w| w.admit_write(n));
        if full && fits == 0 {
            return Err(super::enospc());
        }
        super::emit_bytes_admitted(&buf[..fits]);
        Ok(fits)
    }
    impl io::Write for Stdout {
        fn write(&mut self, buf: &[u8]) -> io::Result<usize> {
            put(buf)
        }
        fn flush(&mut self) -> io::Result<()> {
            Ok(())
        }
    }
    impl io::Write for &Stdout {
        fn write(&mut self, buf: &[u8]) -> io::Result<usize> {
            put(buf)
        }
        fn flush(&mut self) -> io::Result<()> {
            Ok(())
        }
    }
    impl io::Write for StdoutLock<'_> {
        fn write(&mut self, buf: &[u8]) -> io::Result<usize> {
            put(buf)
        }
        fn flush(&mut self) -> io::Result<()> {
            Ok(())
        }
    }

    /// diagnostics channel: discarded (counted), never part of the generator's product
    pub struct Stderr;
    pub fn stderr() -> Stderr {
        Stderr
    }
    impl Stderr {
        pub fn lock(&self) -> StderrLock<'static> {
            StderrLock(std::marker::PhantomData)
        }
        pub fn is_terminal(&self) -> bool {
            false
        }
    }
    impl io::Write for StderrLock<'_> {
        fn write(&mut self, buf: &[u8]) -> io::Result<usize> {
            world::with(|w| w.stats.stderr_prints += 1);
            Ok(buf.len())
        }
        fn flush(&mut self) -> io::Result<()> {
            Ok(())
        }
    }
    impl io::Write for Stderr {
        fn write(&mut self, buf: &[u8]) -> io::Result<usize> {
            world::with(|w| w.stats.stderr_prints += 1);
            Ok(buf.len())
        }
        fn flush(&mut self) -> io::Result<()> {
            Ok(())
        }
    }
}

pub mod simenv {
    use crate::world;
    use std::ffi::{OsStr, OsString};

    /// payload of the unwinding that stands for `process::exit(code)` inside a simulated run
    pub struct ExitRequest(pub i32);

    /// the generators are run as `cargo run --bin <name>`: no arguments
    pub fn args() -> std::vec::IntoIter<String> {
        vec!["generator".to_string()].into_iter()
    }
    pub fn args_os() -> std::vec::IntoIter<OsString> {
        vec![OsString::from("generator")].into_iter()
    }
    /// deterministic environment: only what cargo sets for the crate is visible
    pub fn var<K: AsRef<OsStr>>(k: K) -> Result<String, std::env::VarError> {
        match k.as_ref().to_str() {
            Some("CARGO_MANIFEST_DIR") => Ok(world::with(|w| w.image.crate_dir.display().to_string())),
            Some("CARGO_PKG_NAME") => Ok("unic-langid-impl".to_string()),
            // (round 16) a variable that by its name sets a job / thread count is part of the
            // machine: CI systems and build wrappers set CARGO_BUILD_JOBS, RAYON_NUM_THREADS, ...
            Some(name) if jobs_like(name) => match world::with(|w| w.decide_env_jobs(name)) {
                0 => Err(std::env::VarError::NotPresent),
                n => Ok(n.to_string()),
            },
            _ => Err(std::env::VarError::NotPresent),
        }
    }
    fn jobs_like(name: &str) -> bool {
        let u = name.to_ascii_uppercase();
        ["JOBS", "THREADS", "NPROC", "NCPU", "CPUS", "WORKERS", "PARALLEL"].iter().any(|m| u.contains(m))
    }
    pub fn var_os<K: AsRef<OsStr>>(k: K) -> Option<OsString> {
        var(k).ok().map(OsString::from)
    }
    pub fn vars() -> std::vec::IntoIter<(String, String)> {
        vec![].into_iter()
    }
    pub fn current_dir() -> std::io::Result<super::OutPathBuf> {
        Ok(world::with(|w| w.cwd.clone()).into())
    }
    /// the working directory is the simulated process's (the simulator's own never moves)
    pub fn set_current_dir<P: AsRef<std::path::Path>>(p: P) -> std::io::Result<()> {
        let m = super::simfs::stat(p.as_ref())?;
        if !m.is_dir() {
            return Err(std::io::Error::new(std::io::ErrorKind::Other, "Not a directory"));
        }
        world::with(|w| {
            let abs = w.absolute(p.as_ref());
            // lexical clean-up of `.` and `..`
            let mut out = std::path::PathBuf::new();
            for c in abs.components() {
                match c {
                    std::path::Component::CurDir => {}
                    std::path::Component::ParentDir => {
                        out.pop();
                    }
                    other => out.push(other.as_os_str()),
                }
            }
            w.cwd = out;
            w.event("chdir", 0, 0);
        });
        Ok(())
    }
    /// where cargo puts the generator binaries of the repository workspace
    pub fn current_exe() -> std::io::Result<super::OutPathBuf> {
        let ws = world::with(|w| w.image.crate_dir.parent().map(|p| p.to_path_buf()).unwrap_or_default());
        Ok(ws.join("target/debug/generator").into())
    }
    pub fn temp_dir() -> super::OutPathBuf {
        std::path::PathBuf::from("/tmp").into()
    }
    /// `process::id()`: every simulated execution is a process of its own, with its own id (the
    /// simulator's real pid would be the same for every run of a session and would tell a program
    /// that probes `/proc/<pid>` or compares pid files that its crashed predecessor is still alive)
    pub fn id() -> u32 {
        world::with(|w| w.pid)
    }

    /// `process::exit`: the process image is gone at this instant. Whatever is still buffered in
    /// user space (a `BufWriter` that was not flushed) is lost, exactly as in reality: the output
    /// is frozen *before* the unwinding that ends the simulated run drops (and flushes) anything.
    pub fn exit(code: i32) -> ! {
        world::with(|w| {
            w.frozen = true;
            w.exit_code = Some(code);
            w.event("exit", code as u64, 0);
        });
        // a run that has a process of its own ends here, literally (does not return then)
        crate::sim::exit_child_now(code);
        std::panic::panic_any(ExitRequest(code))
    }
}

// =============================================================================================
// Child processes
// =============================================================================================
/// `std::process::Command` inside a simulated run. A real child process with real pipes cannot
/// live inside the simulation (a blocking `wait`/`read` on the one OS thread all simulated threads
/// share would stop the world), and what a maintainer's machine has installed is part of the
/// environment anyway. The only external program a table generator plausibly calls is a source
/// formatter: `rustfmt` (by that file name, or via `$RUSTFMT`) is modelled as a program that may or
/// may not be installed (`Decision::Program`) and, when it is, copies its standard input to its
/// standard output unchanged / leaves the files named on its command line as they are and exits
/// successfully — formatting is immaterial to the oracle, which reads values, not layout. Every
/// other program is "not found". A run in which a program turned out to be missing may fail loudly
/// without being judged (like a stalled run); it may not complete with a different table.
pub mod simproc {
    use crate::world;
    use std::ffi::{OsStr, OsString};
    use std::io;
    use std::os::unix::process::ExitStatusExt;
    use std::path::Path;
    use std::process::{ExitStatus, Output};
    use std::sync::{Arc, Mutex};

    #[derive(Default, Debug)]
    struct PipeState {
        /// what the program wrote to the child's stdin so far
        input: Vec<u8>,
        stdin_closed: bool,
        /// how much of the (identity) output has been read back
        read_pos: usize,
    }
    type Pipe = Arc<Mutex<PipeState>>;

    #[derive(Debug, Clone, Copy, PartialEq, Eq)]
    enum Kind {
        Inherit,
        Piped,
        Null,
    }
    #[derive(Debug)]
    pub struct Stdio(Kind);
    impl Stdio {
        pub fn piped() -> Stdio {
            Stdio(Kind::Piped)
        }
        pub fn inherit() -> Stdio {
            Stdio(Kind::Inherit)
        }
        pub fn null() -> Stdio {
            Stdio(Kind::Null)
        }
    }
    impl From<super::simfs::File> for Stdio {
        fn from(_: super::simfs::File) -> Stdio {
            Stdio(Kind::Null)
        }
    }

    #[derive(Debug)]
    pub struct Command {
        program: OsString,
        args: Vec<OsString>,
        stdin: Kind,
        stdout: Kind,
    }
    impl Command {
        pub fn new<S: AsRef<OsStr>>(program: S) -> Command {
            Command {
                program: program.as_ref().to_os_string(),
                args: vec![],
                stdin: Kind::Inherit,
                stdout: Kind::Inherit,
            }
        }
        pub fn arg<S: AsRef<OsStr>>(&mut self, a: S) -> &mut Command {
            self.args.push(a.as_ref().to_os_string());
            self
        }
        pub fn args<I, S>(&mut self, a: I) -> &mut Command
        where
            I: IntoIterator<Item = S>,
            S: AsRef<OsStr>,
        {
            for x in a {
                self.args.push(x.as_ref().to_os_string());
            }
            self
        }
        pub fn env<K: AsRef<OsStr>, V: AsRef<OsStr>>(&mut self, _k: K, _v: V) -> &mut Command {
            self
        }
        pub fn envs<I, K, V>(&mut self, _vars: I) -> &mut Command
        where
            I: IntoIterator<Item = (K, V)>,
            K: AsRef<OsStr>,
            V: AsRef<OsStr>,
        {
            self
        }
        pub fn env_remove<K: AsRef<OsStr>>(&mut self, _k: K) -> &mut Command {
            self
        }
        pub fn env_clear(&mut self) -> &mut Command {
            self
        }
        pub fn current_dir<P: AsRef<Path>>(&mut self, _p: P) -> &mut Command {
            self
        }
        pub fn stdin<T: Into<Stdio>>(&mut self, s: T) -> &mut Command {
            self.stdin = s.into().0;
            self
        }
        pub fn stdout<T: Into<Stdio>>(&mut self, s: T) -> &mut Command {
            self.stdout = s.into().0;
            self
        }
        pub fn stderr<T: Into<Stdio>>(&mut self, _s: T) -> &mut Command {
            self
        }
        pub fn get_program(&self) -> &OsStr {
            &self.program
        }
        fn is_formatter(&self) -> bool {
            Path::new(&self.program)
                .file_stem()
                .and_then(|s| s.to_str())
                .map(|s| s == "rustfmt")
                .unwrap_or(false)
        }
        pub fn spawn(&mut self) -> io::Result<Child> {
            let name = self.program.to_string_lossy().to_string();
            let available = self.is_formatter() && world::with(|w| w.decide_program(&name));
            if !self.is_formatter() {
                world::with(|w| {
                    w.missing_program = true;
                    crate::isolate::child_fault_notice();
                    w.event("spawn_unknown_program", 0, 0);
                });
            }
            if !available {
                return Err(io::Error::new(io::ErrorKind::NotFound, "No such file or directory (simulated environment)"));
            }
            let pipe: Pipe = Arc::new(Mutex::new(PipeState::default()));
            if self.stdin != Kind::Piped {
                // nothing will ever be written: the formatter sees an empty input at once
                pipe.lock().unwrap().stdin_closed = true;
            }
            Ok(Child {
                stdin: if self.stdin == Kind::Piped { Some(ChildStdin { pipe: pipe.clone() }) } else { None },
                stdout: if self.stdout == Kind::Piped { Some(ChildStdout { pipe: pipe.clone() }) } else { None },
                stderr: None,
                pipe,
                inherit_stdout: self.stdout == Kind::Inherit,
            })
        }
        pub fn output(&mut self) -> io::Result<Output> {
            self.stdin = Kind::Null;
            self.stdout = Kind::Piped;
            self.spawn()?.wait_with_output()
        }
        pub fn status(&mut self) -> io::Result<ExitStatus> {
            self.spawn()?.wait()
        }
    }

    pub struct ChildStdin {
        pipe: Pipe,
    }
    impl io::Write for ChildStdin {
        fn write(&mut self, buf: &[u8]) -> io::Result<usize> {
            self.pipe.lock().unwrap().input.extend_from_slice(buf);
            Ok(buf.len())
        }
        fn flush(&mut self) -> io::Result<()> {
            Ok(())
        }
    }
    impl Drop for ChildStdin {
        fn drop(&mut self) {
            self.pipe.lock().unwrap().stdin_closed = true;
        }
    }
    impl std::fmt::Debug for ChildStdin {
        fn fmt(&self, f: &mut std::fmt::Formatter) -> std::fmt::Result {
            write!(f, "ChildStdin")
        }
    }

    /// wait until the program has closed the child's stdin (the formatter reads everything before
    /// it writes anything); under the thread scheduler other simulated threads run meanwhile
    fn wait_for_input_end(pipe: &Pipe) -> io::Result<()> {
        loop {
            if pipe.lock().unwrap().stdin_closed {
                return Ok(());
            }
            let under = world::with(|w| w.under_shuttle);
            if !under || super::simthread::timed_wait_step().is_some() {
                // nobody else can close it: in reality the program would hang here, waiting for a
                // child that waits for it
                panic!("deadlock: reading the output of a child process whose standard input is still open and that nobody else can close");
            }
        }
    }

    pub struct ChildStdout {
        pipe: Pipe,
    }
    impl io::Read for ChildStdout {
        fn read(&mut self, buf: &mut [u8]) -> io::Result<usize> {
            wait_for_input_end(&self.pipe)?;
            let mut p = self.pipe.lock().unwrap();
            let n = (p.input.len() - p.read_pos).min(buf.len());
            let pos = p.read_pos;
            buf[..n].copy_from_slice(&p.input[pos..pos + n]);
            p.read_pos += n;
            Ok(n)
        }
    }
    impl std::fmt::Debug for ChildStdout {
        fn fmt(&self, f: &mut std::fmt::Formatter) -> std::fmt::Result {
            write!(f, "ChildStdout")
        }
    }
    #[derive(Debug)]
    pub struct ChildStderr;
    impl io::Read for ChildStderr {
        fn read(&mut self, _buf: &mut [u8]) -> io::Result<usize> {
            Ok(0)
        }
    }

    #[derive(Debug)]
    pub struct Child {
        pub stdin: Option<ChildStdin>,
        pub stdout: Option<ChildStdout>,
        pub stderr: Option<ChildStderr>,
        pipe: Pipe,
        inherit_stdout: bool,
    }
    impl Child {
        pub fn id(&self) -> u32 {
            4242
        }
        pub fn kill(&mut self) -> io::Result<()> {
            Ok(())
        }
        fn finish(&mut self) -> io::Result<()> {
            // like std: waiting closes the child's stdin first
            drop(self.stdin.take());
            wait_for_input_end(&self.pipe)?;
            if self.inherit_stdout {
                // the formatter writes to the generator's own stdout
                let mut p = self.pipe.lock().unwrap();
                let rest = p.input[p.read_pos..].to_vec();
                p.read_pos = p.input.len();
                drop(p);
                super::emit_str(&String::from_utf8_lossy(&rest));
            }
            Ok(())
        }
        pub fn wait(&mut self) -> io::Result<ExitStatus> {
            self.finish()?;
            Ok(ExitStatus::from_raw(0))
        }
        pub fn try_wait(&mut self) -> io::Result<Option<ExitStatus>> {
            if self.pipe.lock().unwrap().stdin_closed {
                self.wait().map(Some)
            } else {
                Ok(None)
            }
        }
        pub fn wait_with_output(mut self) -> io::Result<Output> {
            drop(self.stdin.take());
            wait_for_input_end(&self.pipe)?;
            let mut out = vec![];
            if self.stdout.take().is_some() {
                let mut p = self.pipe.lock().unwrap();
                out = p.input[p.read_pos..].to_vec();
                p.read_pos = p.input.len();
            }
            self.finish()?;
            Ok(Output {
                status: ExitStatus::from_raw(0),
                stdout: out,
                stderr: vec![],
            })
        }
    }
}

// =============================================================================================
// Threads
// =============================================================================================
/// Thread and sync primitives are shuttle's (see `shadow_std::thread` / `sync`); what is left here
/// are the pieces shuttle does not model: the machine's core count and waits with a deadline.
pub mod simthread {
    use crate::world;
    use std::num::NonZeroUsize;

    /// One polling step of a wait with a deadline: let the other threads run, then say whether
    /// the deadline passes now. `Some(natural)`: it does — `natural` when no other thread could
    /// run (only time can pass), otherwise by the simulator's stalled-machine decision. `None`:
    /// keep waiting (re-check the condition first).
    pub fn timed_wait_step() -> Option<bool> {
        world::with(|w| w.yield_probe = None);
        shuttle::thread::yield_now();
        let others_can_run = world::with(|w| w.yield_probe.take()).unwrap_or(false);
        if !others_can_run {
            world::with(|w| {
                w.stats.timeouts_natural += 1;
                w.event("timeout_natural", 0, 0);
            });
            return Some(true);
        }
        None
    }

    /// `thread::sleep`: the thread gives up the CPU (the engine's own `sleep` is a scheduling point
    /// that the no-preemption default answers with "keep running", which turns every
    /// poll-and-sleep loop into a spin that starves the threads it waits for); simulated time
    /// passes.
    pub fn sleep(dur: std::time::Duration) {
        world::with(|w| w.clock_ns = w.clock_ns.saturating_add(dur.as_nanos() as u64));
        shuttle::thread::yield_now();
    }

    /// `thread::park_timeout`: may return spuriously at any time, so: let the others run, return.
    pub fn park_timeout(_dur: std::time::Duration) {
        shuttle::thread::yield_now();
    }

    /// shuttle's `JoinHandle` lacks `is_finished`; this one carries a completion flag
    #[derive(Debug)]
    pub struct JoinHandle<T> {
        /// (round 16) the thread's body catches its own panic and hands it to `join`, as std does:
        /// a program that looks at `join().is_err()` and goes on must be able to
        inner: shuttle::thread::JoinHandle<std::thread::Result<T>>,
        done: std::sync::Arc<std::sync::atomic::AtomicBool>,
    }
    impl<T> JoinHandle<T> {
        pub fn join(self) -> shuttle::thread::Result<T> {
            match self.inner.join() {
                Ok(r) => r,
                Err(e) => Err(e),
            }
        }
        pub fn thread(&self) -> &shuttle::thread::Thread {
            self.inner.thread()
        }
        pub fn is_finished(&self) -> bool {
            // a scheduling point, like every observation of another thread's progress
            shuttle::thread::yield_now();
            self.done.load(std::sync::atomic::Ordering::SeqCst)
        }
    }
    struct SetOnDrop(std::sync::Arc<std::sync::atomic::AtomicBool>);
    impl Drop for SetOnDrop {
        fn drop(&mut self) {
            self.0.store(true, std::sync::atomic::Ordering::SeqCst);
        }
    }
    fn wrap<F, T>(f: F, done: std::sync::Arc<std::sync::atomic::AtomicBool>) -> impl FnOnce() -> std::thread::Result<T>
    where
        F: FnOnce() -> T,
    {
        move || {
            let _g = SetOnDrop(done);
            let r = std::panic::catch_unwind(std::panic::AssertUnwindSafe(f));
            if r.is_err() {
                // the process goes on after a thread has panicked (std prints the message and
                // nothing else happens unless somebody joins the thread)
                crate::world::try_with(|w| w.stats.thread_panics_survived += 1);
            }
            r
        }
    }
    pub fn spawn<F, T>(f: F) -> JoinHandle<T>
    where
        F: FnOnce() -> T + Send + 'static,
        T: Send + 'static,
    {
        if world::try_with(|w| w.spawn_fails_now()).unwrap_or(false) {
            // as std::thread::spawn: `Builder::spawn(..).expect("failed to spawn thread")`
            panic!("failed to spawn thread: {:?}", eagain());
        }
        let done = std::sync::Arc::new(std::sync::atomic::AtomicBool::new(false));
        JoinHandle {
            inner: shuttle::thread::spawn(wrap(f, done.clone())),
            done,
        }
    }
    /// (round 15) what thread creation fails with when the process may not have another thread
    pub(crate) fn eagain() -> std::io::Error {
        std::io::Error::from_raw_os_error(11)
    }
    #[derive(Debug, Default)]
    pub struct Builder {
        inner: shuttle::thread::Builder,
        name: Option<String>,
    }
    impl Builder {
        pub fn new() -> Self {
            Builder {
                inner: shuttle::thread::Builder::new(),
                name: None,
            }
        }
        pub fn name(self, name: String) -> Self {
            Builder {
                inner: self.inner.name(name.clone()),
                name: Some(name),
            }
        }
        pub fn stack_size(self, n: usize) -> Self {
            Builder {
                inner: self.inner.stack_size(n),
                name: self.name,
            }
        }
        pub fn spawn<F, T>(self, f: F) -> std::io::Result<JoinHandle<T>>
        where
            F: FnOnce() -> T + Send + 'static,
            T: Send + 'static,
        {
            if world::try_with(|w| w.spawn_fails_now()).unwrap_or(false) {
                return Err(eagain());
            }
            let done = std::sync::Arc::new(std::sync::atomic::AtomicBool::new(false));
            Ok(JoinHandle {
                inner: self.inner.spawn(wrap(f, done.clone()))?,
                done,
            })
        }
        pub fn spawn_scoped<'scope, 'env, F, T>(self, scope: &'scope Scope<'scope, 'env>, f: F) -> std::io::Result<ScopedJoinHandle<'scope, T>>
        where
            F: FnOnce() -> T + Send + 'scope,
            T: Send + 'scope,
        {
            if world::try_with(|w| w.spawn_fails_now()).unwrap_or(false) {
                return Err(eagain());
            }
            Ok(scope.spawn_named(self.name, f))
        }
    }

    // ---- scoped threads --------------------------------------------------------------------
    // The engine's own `thread::scope` wakes its owner when *any* scoped thread of that owner
    // finishes, whatever the owner is blocked on at that moment: a scope nested in a task that
    // still has scoped threads of an outer scope running returns early, and `join` on a handle
    // finds no result. Scoped threads are therefore ordinary engine threads here (lifetime erased)
    // that report completion through a channel of their own, and the scope waits for every one of
    // them by handle before it returns — also when its body panics.
    pub struct Scope<'scope, 'env: 'scope> {
        threads: std::sync::Mutex<Vec<shuttle::thread::JoinHandle<()>>>,
        unjoined_panic: std::sync::Arc<std::sync::atomic::AtomicU64>,
        scope: std::marker::PhantomData<&'scope mut &'scope ()>,
        env: std::marker::PhantomData<&'env mut &'env ()>,
    }
    impl std::fmt::Debug for Scope<'_, '_> {
        fn fmt(&self, f: &mut std::fmt::Formatter<'_>) -> std::fmt::Result {
            f.debug_struct("Scope").finish_non_exhaustive()
        }
    }
    pub struct ScopedJoinHandle<'scope, T> {
        result: std::sync::Arc<std::sync::Mutex<Option<std::thread::Result<T>>>>,
        done_rx: shuttle::sync::mpsc::Receiver<()>,
        finished: std::sync::Arc<std::sync::atomic::AtomicBool>,
        unjoined_panic: std::sync::Arc<std::sync::atomic::AtomicU64>,
        thread: shuttle::thread::Thread,
        _marker: std::marker::PhantomData<&'scope T>,
    }
    impl<T> std::fmt::Debug for ScopedJoinHandle<'_, T> {
        fn fmt(&self, f: &mut std::fmt::Formatter<'_>) -> std::fmt::Result {
            f.debug_struct("ScopedJoinHandle").finish_non_exhaustive()
        }
    }
    impl<T> ScopedJoinHandle<'_, T> {
        pub fn join(self) -> std::thread::Result<T> {
            let _ = self.done_rx.recv();
            let r = self.result.lock().unwrap().take().expect("a finished scoped thread left a result");
            if r.is_err() {
                // the panic is handed to the caller: the scope does not raise it again
                self.unjoined_panic.fetch_sub(1, std::sync::atomic::Ordering::SeqCst);
            }
            r
        }
        pub fn thread(&self) -> &shuttle::thread::Thread {
            &self.thread
        }
        pub fn is_finished(&self) -> bool {
            shuttle::thread::yield_now();
            self.finished.load(std::sync::atomic::Ordering::SeqCst)
        }
    }
    impl<'scope, 'env> Scope<'scope, 'env> {
        pub fn spawn<F, T>(&'scope self, f: F) -> ScopedJoinHandle<'scope, T>
        where
            F: FnOnce() -> T + Send + 'scope,
            T: Send + 'scope,
        {
            if world::try_with(|w| w.spawn_fails_now()).unwrap_or(false) {
                panic!("failed to spawn thread: {:?}", eagain());
            }
            self.spawn_named(None, f)
        }
        pub(crate) fn spawn_named<F, T>(&'scope self, name: Option<String>, f: F) -> ScopedJoinHandle<'scope, T>
        where
            F: FnOnce() -> T + Send + 'scope,
            T: Send + 'scope,
        {
            let result: std::sync::Arc<std::sync::Mutex<Option<std::thread::Result<T>>>> = std::sync::Arc::new(std::sync::Mutex::new(None));
            let finished = std::sync::Arc::new(std::sync::atomic::AtomicBool::new(false));
            let (done_tx, done_rx) = shuttle::sync::mpsc::channel::<()>();
            let (r2, f2, any) = (result.clone(), finished.clone(), self.unjoined_panic.clone());
            let body: Box<dyn FnOnce() + Send + 'scope> = Box::new(move || {
                let r = std::panic::catch_unwind(std::panic::AssertUnwindSafe(f));
                if r.is_err() {
                    any.fetch_add(1, std::sync::atomic::Ordering::SeqCst);
                }
                *r2.lock().unwrap() = Some(r);
                f2.store(true, std::sync::atomic::Ordering::SeqCst);
                let _ = done_tx.send(());
            });
            // SAFETY: `scope` joins every thread it spawned before it returns (also when its body
            // panics), so nothing borrowed for 'scope is touched after 'scope ends
            let body: Box<dyn FnOnce() + Send + 'static> = unsafe { std::mem::transmute(body) };
            let mut b = shuttle::thread::Builder::new();
            if let Some(n) = name {
                b = b.name(n);
            }
            let h = b.spawn(body).expect("spawning a simulated thread");
            let thread = h.thread().clone();
            self.threads.lock().unwrap().push(h);
            ScopedJoinHandle {
                result,
                done_rx,
                finished,
                unjoined_panic: self.unjoined_panic.clone(),
                thread,
                _marker: std::marker::PhantomData,
            }
        }
    }
    pub fn scope<'env, F, T>(f: F) -> T
    where
        F: for<'scope> FnOnce(&'scope Scope<'scope, 'env>) -> T,
    {
        let sc = Scope {
            threads: std::sync::Mutex::new(vec![]),
            unjoined_panic: std::sync::Arc::new(std::sync::atomic::AtomicU64::new(0)),
            scope: std::marker::PhantomData,
            env: std::marker::PhantomData,
        };
        let r = std::panic::catch_unwind(std::panic::AssertUnwindSafe(|| f(&sc)));
        // wait for every thread of the scope (threads may spawn further threads while we wait)
        loop {
            let batch: Vec<shuttle::thread::JoinHandle<()>> = std::mem::take(&mut *sc.threads.lock().unwrap());
            if batch.is_empty() {
                break;
            }
            for h in batch {
                let _ = h.join();
            }
        }
        match r {
            Err(e) => std::panic::resume_unwind(e),
            Ok(v) => {
                if sc.unjoined_panic.load(std::sync::atomic::Ordering::SeqCst) > 0 {
                    // like std: a scoped thread panicked and nobody took the panic through `join`
                    panic!("a scoped thread panicked");
                }
                v
            }
        }
    }

    /// `thread::available_parallelism()`: a property of the machine the maintainer happens to
    /// use, so a simulator decision.
    pub fn available_parallelism() -> std::io::Result<NonZeroUsize> {
        let n = world::with(|w| w.decide_cores());
        Ok(NonZeroUsize::new(n.max(1) as usize).unwrap())
    }

    pub mod mpsc {
        use crate::world;
        use shuttle::sync::mpsc as sh;
        use std::time::Duration;

        pub fn channel<T>() -> (sh::Sender<T>, Receiver<T>) {
            let (tx, rx) = sh::channel();
            (tx, Receiver { inner: rx })
        }
        pub fn sync_channel<T>(bound: usize) -> (sh::SyncSender<T>, Receiver<T>) {
            let (tx, rx) = sh::sync_channel(bound);
            (tx, Receiver { inner: rx })
        }

        /// shuttle's receiver plus deadlines: shuttle has no notion of time, its `recv_timeout`
        /// never times out. Here a timed wait that finds the channel empty asks the simulator
        /// whether the deadline passes before anybody else runs (every real scheduler may stall
        /// the other threads for longer than any fixed timeout).
        #[derive(Debug)]
        pub struct Receiver<T> {
            inner: sh::Receiver<T>,
        }
        impl<T> Receiver<T> {
            pub fn recv(&self) -> Result<T, sh::RecvError> {
                self.inner.recv()
            }
            pub fn try_recv(&self) -> Result<T, sh::TryRecvError> {
                self.inner.try_recv()
            }
            pub fn recv_timeout(&self, _timeout: Duration) -> Result<T, sh::RecvTimeoutError> {
                loop {
                    match self.inner.try_recv() {
                        Ok(v) => return Ok(v),
                        Err(sh::TryRecvError::Disconnected) => return Err(sh::RecvTimeoutError::Disconnected),
                        Err(sh::TryRecvError::Empty) => {}
                    }
                    // nothing to receive yet: let the other threads run; if none can, time passes
                    if super::timed_wait_step().is_some() {
                        return Err(sh::RecvTimeoutError::Timeout);
                    }
                    match self.inner.try_recv() {
                        Ok(v) => return Ok(v),
                        Err(sh::TryRecvError::Disconnected) => return Err(sh::RecvTimeoutError::Disconnected),
                        Err(sh::TryRecvError::Empty) => {}
                    }
                    // still empty although others could run: a real scheduler may keep them off the
                    // CPU for longer than any fixed timeout (stalled-machine fault, simulator decision)
                    if world::with(|w| w.decide_timeout()) {
                        return Err(sh::RecvTimeoutError::Timeout);
                    }
                }
            }
            pub fn iter(&self) -> Iter<'_, T> {
                Iter { rx: self }
            }
            pub fn try_iter(&self) -> TryIter<'_, T> {
                TryIter { rx: self }
            }
        }
        pub struct Iter<'a, T: 'a> {
            rx: &'a Receiver<T>,
        }
        pub struct TryIter<'a, T: 'a> {
            rx: &'a Receiver<T>,
        }
        pub struct IntoIter<T> {
            rx: Receiver<T>,
        }
        impl<T> Iterator for Iter<'_, T> {
            type Item = T;
            fn next(&mut self) -> Option<T> {
                self.rx.recv().ok()
            }
        }
        impl<T> Iterator for TryIter<'_, T> {
            type Item = T;
            fn next(&mut self) -> Option<T> {
                self.rx.try_recv().ok()
            }
        }
        impl<'a, T> IntoIterator for &'a Receiver<T> {
            type Item = T;
            type IntoIter = Iter<'a, T>;
            fn into_iter(self) -> Iter<'a, T> {
                self.iter()
            }
        }
        impl<T> Iterator for IntoIter<T> {
            type Item = T;
            fn next(&mut self) -> Option<T> {
                self.rx.recv().ok()
            }
        }
        impl<T> IntoIterator for Receiver<T> {
            type Item = T;
            type IntoIter = IntoIter<T>;
            fn into_iter(self) -> IntoIter<T> {
                IntoIter { rx: self }
            }
        }
    }
}

// =============================================================================================
// Mutex / Condvar with deadlines
// =============================================================================================
/// shuttle's `Mutex`/`Condvar` behind thin wrappers whose only purpose is `Condvar::wait_timeout`:
/// shuttle has no time, its timed waits never time out, and a guard does not give its mutex back,
/// so a timed wait could not be expressed on top of it. Here a timed wait releases the lock, lets
/// the other threads run and re-takes it; it returns "notified" when a notification arrived in
/// between, "timed out" when no other thread could run (only time can pass) or when the
/// simulator's stalled-machine decision says so.
pub mod simsync {
    use crate::world;
    use shuttle::sync as sh;
    use std::ops::{Deref, DerefMut};
    use std::sync::atomic::{AtomicU64, Ordering};
    use std::sync::{LockResult, PoisonError, TryLockError, TryLockResult};
    use std::time::Duration;

    pub struct Mutex<T: ?Sized> {
        inner: sh::Mutex<T>,
    }
    pub struct MutexGuard<'a, T: ?Sized + 'a> {
        g: Option<sh::MutexGuard<'a, T>>,
        m: &'a Mutex<T>,
    }
    impl<T> Mutex<T> {
        pub const fn new(v: T) -> Self {
            Mutex { inner: sh::Mutex::new(v) }
        }
        pub fn into_inner(self) -> LockResult<T> {
            self.inner.into_inner()
        }
    }
    impl<T: ?Sized> Mutex<T> {
        fn wrap<'a>(&'a self, r: LockResult<sh::MutexGuard<'a, T>>) -> LockResult<MutexGuard<'a, T>> {
            match r {
                Ok(g) => Ok(MutexGuard { g: Some(g), m: self }),
                Err(p) => Err(PoisonError::new(MutexGuard {
                    g: Some(p.into_inner()),
                    m: self,
                })),
            }
        }
        pub fn lock(&self) -> LockResult<MutexGuard<'_, T>> {
            self.wrap(self.inner.lock())
        }
        pub fn try_lock(&self) -> TryLockResult<MutexGuard<'_, T>> {
            match self.inner.try_lock() {
                Ok(g) => Ok(MutexGuard { g: Some(g), m: self }),
                Err(TryLockError::WouldBlock) => Err(TryLockError::WouldBlock),
                Err(TryLockError::Poisoned(p)) => Err(TryLockError::Poisoned(PoisonError::new(MutexGuard {
                    g: Some(p.into_inner()),
                    m: self,
                }))),
            }
        }
        pub fn get_mut(&mut self) -> LockResult<&mut T> {
            self.inner.get_mut()
        }
        pub fn is_poisoned(&self) -> bool {
            false
        }
        pub fn clear_poison(&self) {
            self.inner.clear_poison()
        }
    }
    impl<T: Default> Default for Mutex<T> {
        fn default() -> Self {
            Mutex::new(T::default())
        }
    }
    impl<T> From<T> for Mutex<T> {
        fn from(v: T) -> Self {
            Mutex::new(v)
        }
    }
    impl<T: ?Sized + std::fmt::Debug> std::fmt::Debug for Mutex<T> {
        fn fmt(&self, f: &mut std::fmt::Formatter) -> std::fmt::Result {
            self.inner.fmt(f)
        }
    }
    impl<T: ?Sized> Deref for MutexGuard<'_, T> {
        type Target = T;
        fn deref(&self) -> &T {
            self.g.as_ref().expect("guard in use")
        }
    }
    impl<T: ?Sized> DerefMut for MutexGuard<'_, T> {
        fn deref_mut(&mut self) -> &mut T {
            self.g.as_mut().expect("guard in use")
        }
    }
    impl<T: ?Sized + std::fmt::Debug> std::fmt::Debug for MutexGuard<'_, T> {
        fn fmt(&self, f: &mut std::fmt::Formatter) -> std::fmt::Result {
            (**self).fmt(f)
        }
    }
    impl<T: ?Sized + std::fmt::Display> std::fmt::Display for MutexGuard<'_, T> {
        fn fmt(&self, f: &mut std::fmt::Formatter) -> std::fmt::Result {
            (**self).fmt(f)
        }
    }

    #[derive(Clone, Copy, Debug, PartialEq, Eq)]
    pub struct WaitTimeoutResult(bool);
    impl WaitTimeoutResult {
        pub fn timed_out(&self) -> bool {
            self.0
        }
    }

    #[derive(Debug, Default)]
    pub struct Condvar {
        inner: sh::Condvar,
        /// number of notifications so far (bookkeeping of the timed waits; not a scheduling point)
        notified: AtomicU64,
    }
    impl Condvar {
        pub const fn new() -> Self {
            Condvar {
                inner: sh::Condvar::new(),
                notified: AtomicU64::new(0),
            }
        }
        pub fn notify_one(&self) {
            self.notified.fetch_add(1, Ordering::SeqCst);
            self.inner.notify_one()
        }
        pub fn notify_all(&self) {
            self.notified.fetch_add(1, Ordering::SeqCst);
            self.inner.notify_all()
        }
        pub fn wait<'a, T>(&self, mut guard: MutexGuard<'a, T>) -> LockResult<MutexGuard<'a, T>> {
            let m = guard.m;
            let g = guard.g.take().expect("guard in use");
            m.wrap(self.inner.wait(g))
        }
        pub fn wait_while<'a, T, F>(&self, mut guard: MutexGuard<'a, T>, mut condition: F) -> LockResult<MutexGuard<'a, T>>
        where
            F: FnMut(&mut T) -> bool,
        {
            while condition(&mut *guard) {
                guard = self.wait(guard)?;
            }
            Ok(guard)
        }
        pub fn wait_timeout<'a, T>(
            &self,
            guard: MutexGuard<'a, T>,
            _dur: Duration,
        ) -> LockResult<(MutexGuard<'a, T>, WaitTimeoutResult)> {
            let m = guard.m;
            let seen = self.notified.load(Ordering::SeqCst);
            let mut guard = Some(guard);
            loop {
                // release the lock, let the others run, take it again
                drop(guard.take());
                let natural = super::simthread::timed_wait_step();
                let g = match m.lock() {
                    Ok(g) => g,
                    Err(p) => return Err(PoisonError::new((p.into_inner(), WaitTimeoutResult(false)))),
                };
                if self.notified.load(Ordering::SeqCst) != seen {
                    return Ok((g, WaitTimeoutResult(false)));
                }
                if natural.is_some() || world::with(|w| w.decide_timeout()) {
                    return Ok((g, WaitTimeoutResult(true)));
                }
                guard = Some(g);
            }
        }
        pub fn wait_timeout_while<'a, T, F>(
            &self,
            mut guard: MutexGuard<'a, T>,
            dur: Duration,
            mut condition: F,
        ) -> LockResult<(MutexGuard<'a, T>, WaitTimeoutResult)>
        where
            F: FnMut(&mut T) -> bool,
        {
            loop {
                if !condition(&mut *guard) {
                    return Ok((guard, WaitTimeoutResult(false)));
                }
                let (g, r) = self.wait_timeout(guard, dur)?;
                guard = g;
                if r.timed_out() {
                    let still = condition(&mut *guard);
                    return Ok((guard, WaitTimeoutResult(still)));
                }
            }
        }
    }
}

// =============================================================================================
// Clock
// =============================================================================================
/// `SystemTime::now()` / `Instant::now()` read the simulated clock, so that a generator that
/// stamps its output or measures itself stays a deterministic function of the run's seed.
pub mod simtime {
    use crate::world;
    use std::ops::{Add, Sub};
    use std::time::Duration;

    #[derive(Clone, Copy, Debug, PartialEq, Eq, PartialOrd, Ord, Hash)]
    pub struct SystemTime(u64);
    pub const UNIX_EPOCH: SystemTime = SystemTime(0);

    #[derive(Clone, Debug)]
    pub struct SystemTimeError(Duration);
    impl SystemTimeError {
        pub fn duration(&self) -> Duration {
            self.0
        }
    }
    impl std::fmt::Display for SystemTimeError {
        fn fmt(&self, f: &mut std::fmt::Formatter) -> std::fmt::Result {
            write!(f, "second time provided was later than self")
        }
    }
    impl std::error::Error for SystemTimeError {}

    impl SystemTime {
        pub const UNIX_EPOCH: SystemTime = SystemTime(0);
        pub(crate) fn from_nanos(n: u64) -> SystemTime {
            SystemTime(n)
        }
        pub(crate) fn nanos(&self) -> u64 {
            self.0
        }
        pub fn now() -> SystemTime {
            SystemTime(world::with(|w| w.read_clock()))
        }
        pub fn duration_since(&self, earlier: SystemTime) -> Result<Duration, SystemTimeError> {
            if self.0 >= earlier.0 {
                Ok(Duration::from_nanos(self.0 - earlier.0))
            } else {
                Err(SystemTimeError(Duration::from_nanos(earlier.0 - self.0)))
            }
        }
        pub fn elapsed(&self) -> Result<Duration, SystemTimeError> {
            SystemTime::now().duration_since(*self)
        }
    }
    impl Add<Duration> for SystemTime {
        type Output = SystemTime;
        fn add(self, d: Duration) -> SystemTime {
            SystemTime(self.0 + d.as_nanos() as u64)
        }
    }
    impl Sub<Duration> for SystemTime {
        type Output = SystemTime;
        fn sub(self, d: Duration) -> SystemTime {
            SystemTime(self.0.saturating_sub(d.as_nanos() as u64))
        }
    }

    #[derive(Clone, Copy, Debug, PartialEq, Eq, PartialOrd, Ord, Hash)]
    pub struct Instant(u64);
    impl Instant {
        pub fn now() -> Instant {
            Instant(world::with(|w| w.read_clock()))
        }
        pub fn elapsed(&self) -> Duration {
            Instant::now().duration_since(*self)
        }
        pub fn duration_since(&self, earlier: Instant) -> Duration {
            Duration::from_nanos(self.0.saturating_sub(earlier.0))
        }
        pub fn saturating_duration_since(&self, earlier: Instant) -> Duration {
            self.duration_since(earlier)
        }
        pub fn checked_duration_since(&self, earlier: Instant) -> Option<Duration> {
            self.0.checked_sub(earlier.0).map(Duration::from_nanos)
        }
    }
    impl Sub<Instant> for Instant {
        type Output = Duration;
        fn sub(self, o: Instant) -> Duration {
            self.duration_since(o)
        }
    }
    impl Add<Duration> for Instant {
        type Output = Instant;
        fn add(self, d: Duration) -> Instant {
            Instant(self.0 + d.as_nanos() as u64)
        }
    }
    impl Sub<Duration> for Instant {
        type Output = Instant;
        fn sub(self, d: Duration) -> Instant {
            Instant(self.0.saturating_sub(d.as_nanos() as u64))
        }
    }
}

/// `LocalKey<RefCell<T>>` / `LocalKey<Cell<T>>` conveniences of std (`with_borrow`, `take`, `set`,
/// `replace`, `get`) that the engine's `LocalKey` lacks; brought into scope in the generator modules.
pub trait LocalKeyRefCellExt<T: 'static> {
    fn with_borrow<F: FnOnce(&T) -> R, R>(&'static self, f: F) -> R;
    fn with_borrow_mut<F: FnOnce(&mut T) -> R, R>(&'static self, f: F) -> R;
    fn set(&'static self, value: T);
    fn take(&'static self) -> T
    where
        T: Default;
    fn replace(&'static self, value: T) -> T;
}
impl<T: 'static> LocalKeyRefCellExt<T> for shuttle::thread::LocalKey<std::cell::RefCell<T>> {
    fn with_borrow<F: FnOnce(&T) -> R, R>(&'static self, f: F) -> R {
        self.with(|c| f(&c.borrow()))
    }
    fn with_borrow_mut<F: FnOnce(&mut T) -> R, R>(&'static self, f: F) -> R {
        self.with(|c| f(&mut c.borrow_mut()))
    }
    fn set(&'static self, value: T) {
        self.with(|c| *c.borrow_mut() = value)
    }
    fn take(&'static self) -> T
    where
        T: Default,
    {
        self.with(|c| c.take())
    }
    fn replace(&'static self, value: T) -> T {
        self.with(|c| c.replace(value))
    }
}
pub trait LocalKeyCellExt<T: 'static> {
    fn set(&'static self, value: T);
    fn get(&'static self) -> T
    where
        T: Copy;
    fn take(&'static self) -> T
    where
        T: Default;
    fn replace(&'static self, value: T) -> T;
}
impl<T: 'static> LocalKeyCellExt<T> for shuttle::thread::LocalKey<std::cell::Cell<T>> {
    fn set(&'static self, value: T) {
        self.with(|c| c.set(value))
    }
    fn get(&'static self) -> T
    where
        T: Copy,
    {
        self.with(|c| c.get())
    }
    fn take(&'static self) -> T
    where
        T: Default,
    {
        self.with(|c| c.take())
    }
    fn replace(&'static self, value: T) -> T {
        self.with(|c| c.replace(value))
    }
}

pub fn emit_str(s: &str) {
    // a print is a crash point too (what a crashed run printed is discarded by the session)
    let gate = crate::world::with(|w| w.gate(false, None));
    if matches!(gate, crate::world::Gate::CrashBefore) {
        simfs::crash();
    }
    let die = matches!(gate, crate::world::Gate::CrashAfter | crate::world::Gate::Torn(_));
    // (round 11) the device stdout is redirected to may be full: what fits is written, then the
    // print fails the way `println!` does
    let (fits, full) = crate::world::with(|w| w.admit_write(s.len()));
    if full {
        let mut cut = fits;
        while cut > 0 && !s.is_char_boundary(cut) {
            cut -= 1;
        }
        emit_str_inner(&s[..cut]);
        if std::thread::panicking() {
            // a print from a destructor that runs while the program is already unwinding (a
            // report in `Drop`, control `n3_r4`): the real `println!` would panic a second time
            // and the process would abort — as loud as it gets. Here the process image is simply
            // gone from this point on; the first panic is what the run ends with.
            crate::world::with(|w| w.frozen = true);
            return;
        }
        panic!("failed printing to stdout: No space left on device (os error 28)");
    }
    emit_str_inner(s);
    if die {
        simfs::crash();
    }
}

/// ENOSPC, as the OS reports it
pub fn enospc() -> std::io::Error {
    std::io::Error::from_raw_os_error(28)
}

/// bytes of a `write` on the stdout handle that the device has already admitted
pub fn emit_bytes_admitted(b: &[u8]) {
    let s = String::from_utf8_lossy(b);
    let gate = crate::world::with(|w| w.gate(false, None));
    if matches!(gate, crate::world::Gate::CrashBefore) {
        simfs::crash();
    }
    let die = matches!(gate, crate::world::Gate::CrashAfter | crate::world::Gate::Torn(_));
    emit_str_inner(&s);
    if die {
        simfs::crash();
    }
}

fn emit_str_inner(s: &str) {
    crate::world::with(|w| {
        if w.frozen {
            w.stats.prints_after_exit += 1;
            return;
        }
        w.out.push_str(s);
        w.stats.prints += 1;
        let mut d = crate::rng::Fnv::default();
        d.bytes(s.as_bytes());
        w.event("print", d.0, s.len() as u64);
    });
}

/// stdout of the generator
pub fn emit(args: std::fmt::Arguments, newline: bool) {
    // format outside the world borrow: a Display impl may itself iterate a simulated container
    let mut s = std::fmt::format(args);
    if newline {
        s.push('\n');
    }
    emit_str(&s);
}

/// stderr of the generator (`eprintln!`, `dbg!`): formatted (side effects of Display impls happen
/// as in reality), counted, discarded
pub fn emit_err(args: std::fmt::Arguments) {
    let _ = std::fmt::format(args);
    crate::world::with(|w| w.stats.stderr_prints += 1);
}

/// `main` returned: the process exits; detached threads die and nothing they would still have
/// written counts
pub fn main_returned() {
    crate::world::with(|w| {
        w.frozen = true;
        w.event("main_returned", 0, 0);
    });
}

// =============================================================================================
// walkdir
// =============================================================================================
/// The `walkdir` crate as the generators see it (it is in the repository's lock file through a
/// dev-dependency, so a generator may use it offline): the same API over the simulated file
/// system. The real crate calls `std::fs::read_dir` of the real tree from inside the dependency,
/// where no seam reaches: directory order would be the real machine's and nothing a simulated run
/// wrote would be listed.
pub mod shim_walkdir {
    use super::simfs;
    use super::OutPathBuf;
    use std::cmp::Ordering;
    use std::ffi::OsStr;
    use std::io;
    use std::path::{Path as RealPath, PathBuf as RealPathBuf};

    #[cfg(feature = "path_shadow")]
    type OutPath = super::simpath::Path;
    #[cfg(not(feature = "path_shadow"))]
    type OutPath = std::path::Path;

    #[cfg(feature = "path_shadow")]
    fn out_path(p: &RealPath) -> &OutPath {
        super::simpath::Path::wrap(p)
    }
    #[cfg(not(feature = "path_shadow"))]
    fn out_path(p: &RealPath) -> &OutPath {
        p
    }

    #[derive(Debug)]
    pub struct Error {
        depth: usize,
        path: Option<RealPathBuf>,
        err: io::Error,
    }
    impl Error {
        pub fn path(&self) -> Option<&OutPath> {
            self.path.as_deref().map(out_path)
        }
        pub fn depth(&self) -> usize {
            self.depth
        }
        pub fn io_error(&self) -> Option<&io::Error> {
            Some(&self.err)
        }
        pub fn into_io_error(self) -> Option<io::Error> {
            Some(self.err)
        }
        pub fn loop_ancestor(&self) -> Option<&OutPath> {
            None
        }
    }
    impl std::fmt::Display for Error {
        fn fmt(&self, f: &mut std::fmt::Formatter) -> std::fmt::Result {
            match &self.path {
                Some(p) => write!(f, "IO error for operation on {}: {}", p.display(), self.err),
                None => write!(f, "{}", self.err),
            }
        }
    }
    impl std::error::Error for Error {}
    impl From<Error> for io::Error {
        fn from(e: Error) -> io::Error {
            e.err
        }
    }
    pub type Result<T> = std::result::Result<T, Error>;

    #[derive(Debug, Clone)]
    pub struct DirEntry {
        path: RealPathBuf,
        depth: usize,
        is_dir: bool,
    }
    impl DirEntry {
        pub fn path(&self) -> &OutPath {
            out_path(&self.path)
        }
        pub fn into_path(self) -> OutPathBuf {
            self.path.into()
        }
        pub fn file_name(&self) -> &OsStr {
            self.path.file_name().unwrap_or_else(|| self.path.as_os_str())
        }
        pub fn file_type(&self) -> simfs::FileType {
            simfs::FileType::of(self.is_dir)
        }
        pub fn depth(&self) -> usize {
            self.depth
        }
        pub fn metadata(&self) -> Result<simfs::Metadata> {
            simfs::stat(&self.path).map_err(|err| Error {
                depth: self.depth,
                path: Some(self.path.clone()),
                err,
            })
        }
        pub fn path_is_symlink(&self) -> bool {
            false
        }
    }

    type Sorter = Box<dyn FnMut(&DirEntry, &DirEntry) -> Ordering + Send + Sync + 'static>;

    pub struct WalkDir {
        root: RealPathBuf,
        min_depth: usize,
        max_depth: usize,
        sorter: Option<Sorter>,
        contents_first: bool,
    }
    impl WalkDir {
        pub fn new<P: AsRef<RealPath>>(root: P) -> WalkDir {
            WalkDir {
                root: root.as_ref().to_path_buf(),
                min_depth: 0,
                max_depth: usize::MAX,
                sorter: None,
                contents_first: false,
            }
        }
        pub fn min_depth(mut self, d: usize) -> Self {
            self.min_depth = d;
            self
        }
        pub fn max_depth(mut self, d: usize) -> Self {
            self.max_depth = d;
            self
        }
        pub fn follow_links(self, _yes: bool) -> Self {
            self
        }
        pub fn follow_root_links(self, _yes: bool) -> Self {
            self
        }
        pub fn max_open(self, _n: usize) -> Self {
            self
        }
        pub fn same_file_system(self, _yes: bool) -> Self {
            self
        }
        pub fn contents_first(mut self, yes: bool) -> Self {
            self.contents_first = yes;
            self
        }
        pub fn sort_by<F>(mut self, cmp: F) -> Self
        where
            F: FnMut(&DirEntry, &DirEntry) -> Ordering + Send + Sync + 'static,
        {
            self.sorter = Some(Box::new(cmp));
            self
        }
        pub fn sort_by_key<K, F>(self, mut key: F) -> Self
        where
            F: FnMut(&DirEntry) -> K + Send + Sync + 'static,
            K: Ord,
        {
            self.sort_by(move |a, b| key(a).cmp(&key(b)))
        }
        pub fn sort_by_file_name(self) -> Self {
            self.sort_by(|a, b| a.file_name().cmp(b.file_name()))
        }
    }
    impl IntoIterator for WalkDir {
        type Item = Result<DirEntry>;
        type IntoIter = IntoIter;
        fn into_iter(self) -> IntoIter {
            IntoIter {
                opts: self,
                started: false,
                stack: vec![],
                descend: None,
                deferred: vec![],
            }
        }
    }

    pub struct IntoIter {
        opts: WalkDir,
        started: bool,
        /// remaining entries of every directory on the current path
        stack: Vec<std::vec::IntoIter<DirEntry>>,
        /// the directory yielded last: listed when the iteration goes on (unless skipped)
        descend: Option<DirEntry>,
        /// contents_first: directories whose contents are being walked
        deferred: Vec<DirEntry>,
    }
    impl IntoIter {
        pub fn skip_current_dir(&mut self) {
            if self.descend.take().is_none() {
                self.stack.pop();
            }
        }
        pub fn filter_entry<P>(self, predicate: P) -> FilterEntry<P>
        where
            P: FnMut(&DirEntry) -> bool,
        {
            FilterEntry { it: self, predicate }
        }
        fn list(&mut self, dir: &DirEntry) -> Result<()> {
            let rd = simfs::read_dir(&dir.path).map_err(|err| Error {
                depth: dir.depth,
                path: Some(dir.path.clone()),
                err,
            })?;
            let mut v = vec![];
            for e in rd {
                let e = e.map_err(|err| Error {
                    depth: dir.depth + 1,
                    path: Some(dir.path.clone()),
                    err,
                })?;
                let is_dir = e.file_type().map(|t| t.is_dir()).unwrap_or(false);
                let p: RealPathBuf = e.path().into();
                v.push(DirEntry {
                    path: p,
                    depth: dir.depth + 1,
                    is_dir,
                });
            }
            if let Some(s) = self.opts.sorter.as_mut() {
                v.sort_by(|a, b| s(a, b));
            }
            self.stack.push(v.into_iter());
            Ok(())
        }
    }
    impl Iterator for IntoIter {
        type Item = Result<DirEntry>;
        fn next(&mut self) -> Option<Result<DirEntry>> {
            loop {
                if !self.started {
                    self.started = true;
                    let root = match simfs::stat(&self.opts.root) {
                        Ok(m) => DirEntry {
                            path: self.opts.root.clone(),
                            depth: 0,
                            is_dir: m.is_dir(),
                        },
                        Err(err) => {
                            return Some(Err(Error {
                                depth: 0,
                                path: Some(self.opts.root.clone()),
                                err,
                            }))
                        }
                    };
                    self.stack.push(vec![root].into_iter());
                }
                if let Some(d) = self.descend.take() {
                    if d.depth < self.opts.max_depth {
                        if let Err(e) = self.list(&d) {
                            return Some(Err(e));
                        }
                        if self.opts.contents_first {
                            self.deferred.push(d);
                        }
                    } else if self.opts.contents_first && d.depth >= self.opts.min_depth {
                        return Some(Ok(d));
                    }
                }
                let next = match self.stack.last_mut() {
                    None => return None,
                    Some(top) => top.next(),
                };
                match next {
                    None => {
                        self.stack.pop();
                        if self.opts.contents_first {
                            // the directory whose contents are done
                            if let Some(d) = self.deferred.pop() {
                                if d.depth >= self.opts.min_depth {
                                    return Some(Ok(d));
                                }
                            }
                        }
                    }
                    Some(e) => {
                        if e.is_dir {
                            self.descend = Some(e.clone());
                            if self.opts.contents_first {
                                continue;
                            }
                        }
                        if e.depth >= self.opts.min_depth && e.depth <= self.opts.max_depth {
                            return Some(Ok(e));
                        }
                    }
                }
            }
        }
    }

    pub struct FilterEntry<P> {
        it: IntoIter,
        predicate: P,
    }
    impl<P: FnMut(&DirEntry) -> bool> Iterator for FilterEntry<P> {
        type Item = Result<DirEntry>;
        fn next(&mut self) -> Option<Result<DirEntry>> {
            loop {
                let e = match self.it.next()? {
                    Ok(e) => e,
                    Err(e) => return Some(Err(e)),
                };
                if !(self.predicate)(&e) {
                    if e.is_dir {
                        self.it.skip_current_dir();
                    }
                    continue;
                }
                return Some(Ok(e));
            }
        }
    }
    impl<P: FnMut(&DirEntry) -> bool> FilterEntry<P> {
        pub fn filter_entry(self, predicate: P) -> FilterEntry<P> {
            FilterEntry { it: self.it, predicate }
        }
        pub fn skip_current_dir(&mut self) {
            self.it.skip_current_dir()
        }
    }
}

// =============================================================================================
// rayon
// =============================================================================================
/// The part of `rayon` a table generator plausibly uses, on top of the simulated threads. The real
/// crate runs closures on a pool of OS threads it owns: no seam reaches them, their interleaving
/// is not the simulator's to decide and a run would not replay. Here every parallel stage hands
/// its items to a handful of simulated worker threads (as many as the simulated machine has
/// cores) that claim them one at a time, so which closure call runs when — and, for the unordered
/// `par_bridge`, in which order results arrive — is a scheduling decision like any other. Stages
/// are executed eagerly (all of `map`, then all of `filter`, ...), which yields only interleavings
/// a real pool with enough threads can produce.
pub mod shim_rayon {
    use crate::world;
    use std::collections::VecDeque;

    fn pool_size() -> usize {
        let forced = world::with(|w| w.rayon_threads);
        match forced {
            Some(n) if n > 0 => n as usize,
            _ => {
                let n = world::with(|w| w.decide_cores()) as usize;
                world::with(|w| w.rayon_threads = Some(n as u32));
                n.max(1)
            }
        }
    }

    pub fn current_num_threads() -> usize {
        pool_size()
    }
    pub fn current_thread_index() -> Option<usize> {
        None
    }
    pub fn max_num_threads() -> usize {
        1 << 16
    }

    /// Apply `f` to every item on simulated worker threads. Ordered: results in item order.
    /// Unordered: results in completion order (a scheduling outcome).
    fn run_parallel<T: Send, U: Send>(items: Vec<T>, ordered: bool, f: &(dyn Fn(T) -> U + Sync)) -> Vec<U> {
        let n = items.len();
        if n == 0 {
            return vec![];
        }
        world::with(|w| w.stats.parallel_stages += 1);
        let workers = pool_size().min(n).min(16).max(1);
        let queue: shuttle::sync::Mutex<VecDeque<(usize, T)>> = shuttle::sync::Mutex::new(items.into_iter().enumerate().collect());
        let done: shuttle::sync::Mutex<Vec<(usize, U)>> = shuttle::sync::Mutex::new(Vec::with_capacity(n));
        let mut jobs: Vec<Box<dyn FnOnce() + Send + '_>> = vec![];
        for _ in 0..workers {
            jobs.push(Box::new(|| loop {
                let job = queue.lock().unwrap().pop_front();
                match job {
                    None => break,
                    Some((i, t)) => {
                        let u = f(t);
                        done.lock().unwrap().push((i, u));
                    }
                }
            }));
        }
        run_to_completion(jobs);
        let mut v = done.into_inner().unwrap();
        if ordered {
            v.sort_by_key(|(i, _)| *i);
        }
        v.into_iter().map(|(_, u)| u).collect()
    }

    /// Run borrowed closures on simulated threads and wait for every one of them.
    /// (Not the engine's `thread::scope`: its owner is woken by the completion of *any* scoped
    /// thread it owns, whatever it is blocked on — a scope nested in a task that still has scoped
    /// threads of an outer scope running returns early. Each thread is joined by handle here.)
    fn run_to_completion<'a>(jobs: Vec<Box<dyn FnOnce() + Send + 'a>>) {
        let handles: Vec<shuttle::thread::JoinHandle<()>> = jobs
            .into_iter()
            .map(|j| {
                // SAFETY: every thread is joined below before this function returns, so nothing the
                // closure borrows is used after its lifetime ends (a panic of the joining task ends
                // the whole simulated execution)
                let j: Box<dyn FnOnce() + Send + 'static> = unsafe { std::mem::transmute(j) };
                shuttle::thread::spawn(j)
            })
            .collect();
        let mut failure = None;
        for h in handles {
            if let Err(e) = h.join() {
                failure.get_or_insert(e);
            }
        }
        if let Some(e) = failure {
            std::panic::resume_unwind(e);
        }
    }

    /// leaves of the split tree a reduction or fold sees: depends on the pool size, like rayon's
    fn leaves<T>(items: Vec<T>) -> Vec<Vec<T>> {
        let n = items.len();
        let parts = pool_size().min(n.max(1)).max(1);
        let per = (n + parts - 1) / parts.max(1);
        let mut out: Vec<Vec<T>> = vec![];
        let mut cur = vec![];
        for t in items {
            cur.push(t);
            if cur.len() >= per.max(1) {
                out.push(std::mem::take(&mut cur));
            }
        }
        if !cur.is_empty() {
            out.push(cur);
        }
        out
    }

    pub mod iter {
        use super::{leaves, run_parallel};
        use std::cmp::Ordering;

        /// a materialised parallel iterator
        pub struct Par<T> {
            pub(super) items: Vec<T>,
            pub(super) ordered: bool,
        }
        impl<T> IntoIterator for Par<T> {
            type Item = T;
            type IntoIter = std::vec::IntoIter<T>;
            fn into_iter(self) -> Self::IntoIter {
                self.items.into_iter()
            }
        }

        pub trait IntoParallelIterator {
            type Item: Send;
            type Iter: ParallelIterator<Item = Self::Item>;
            fn into_par_iter(self) -> Self::Iter;
        }
        impl<I: IntoIterator> IntoParallelIterator for I
        where
            I::Item: Send,
        {
            type Item = I::Item;
            type Iter = Par<I::Item>;
            fn into_par_iter(self) -> Par<I::Item> {
                Par {
                    items: self.into_iter().collect(),
                    ordered: true,
                }
            }
        }
        pub trait IntoParallelRefIterator<'data> {
            type Item: Send + 'data;
            type Iter: ParallelIterator<Item = Self::Item>;
            fn par_iter(&'data self) -> Self::Iter;
        }
        impl<'data, I: 'data + ?Sized> IntoParallelRefIterator<'data> for I
        where
            &'data I: IntoIterator,
            <&'data I as IntoIterator>::Item: Send,
        {
            type Item = <&'data I as IntoIterator>::Item;
            type Iter = Par<Self::Item>;
            fn par_iter(&'data self) -> Self::Iter {
                Par {
                    items: self.into_iter().collect(),
                    ordered: true,
                }
            }
        }
        pub trait IntoParallelRefMutIterator<'data> {
            type Item: Send + 'data;
            type Iter: ParallelIterator<Item = Self::Item>;
            fn par_iter_mut(&'data mut self) -> Self::Iter;
        }
        impl<'data, I: 'data + ?Sized> IntoParallelRefMutIterator<'data> for I
        where
            &'data mut I: IntoIterator,
            <&'data mut I as IntoIterator>::Item: Send,
        {
            type Item = <&'data mut I as IntoIterator>::Item;
            type Iter = Par<Self::Item>;
            fn par_iter_mut(&'data mut self) -> Self::Iter {
                Par {
                    items: self.into_iter().collect(),
                    ordered: true,
                }
            }
        }
        /// `par_bridge`: the one unordered source
        pub trait ParallelBridge: Sized {
            type Item: Send;
            fn par_bridge(self) -> Par<Self::Item>;
        }
        impl<T: Iterator + Send> ParallelBridge for T
        where
            T::Item: Send,
        {
            type Item = T::Item;
            fn par_bridge(self) -> Par<T::Item> {
                Par {
                    items: self.collect(),
                    ordered: false,
                }
            }
        }
        pub trait FromParallelIterator<T: Send> {
            fn from_par_iter<I: IntoParallelIterator<Item = T>>(p: I) -> Self;
        }
        impl<T: Send, C: FromIterator<T>> FromParallelIterator<T> for C {
            fn from_par_iter<I: IntoParallelIterator<Item = T>>(p: I) -> C {
                p.into_par_iter().into_parts().0.into_iter().collect()
            }
        }
        pub trait ParallelExtend<T: Send> {
            fn par_extend<I: IntoParallelIterator<Item = T>>(&mut self, p: I);
        }
        impl<T: Send, C: Extend<T>> ParallelExtend<T> for C {
            fn par_extend<I: IntoParallelIterator<Item = T>>(&mut self, p: I) {
                self.extend(p.into_par_iter().into_parts().0)
            }
        }

        pub trait ParallelIterator: Sized {
            type Item: Send;
            /// the items and whether their order is meaningful
            fn into_parts(self) -> (Vec<Self::Item>, bool);

            fn map<R: Send, F: Fn(Self::Item) -> R + Sync + Send>(self, f: F) -> Par<R> {
                let (items, ordered) = self.into_parts();
                Par {
                    items: run_parallel(items, ordered, &f),
                    ordered,
                }
            }
            fn map_with<T: Send + Clone, R: Send, F: Fn(&mut T, Self::Item) -> R + Sync + Send>(self, init: T, f: F) -> Par<R> {
                let init = std::sync::Mutex::new(init);
                self.map(move |x| {
                    let mut t = init.lock().unwrap().clone();
                    f(&mut t, x)
                })
            }
            fn map_init<T, INIT: Fn() -> T + Sync + Send, R: Send, F: Fn(&mut T, Self::Item) -> R + Sync + Send>(self, init: INIT, f: F) -> Par<R> {
                self.map(move |x| {
                    let mut t = init();
                    f(&mut t, x)
                })
            }
            fn for_each<F: Fn(Self::Item) + Sync + Send>(self, f: F) {
                let _ = self.map(f);
            }
            fn for_each_with<T: Send + Clone, F: Fn(&mut T, Self::Item) + Sync + Send>(self, init: T, f: F) {
                let _ = self.map_with(init, f);
            }
            fn for_each_init<T, INIT: Fn() -> T + Sync + Send, F: Fn(&mut T, Self::Item) + Sync + Send>(self, init: INIT, f: F) {
                let _ = self.map_init(init, f);
            }
            fn try_for_each<R, E: Send, F: Fn(Self::Item) -> Result<R, E> + Sync + Send>(self, f: F) -> Result<(), E>
            where
                R: Send,
            {
                for r in self.map(f).items {
                    r?;
                }
                Ok(())
            }
            fn inspect<F: Fn(&Self::Item) + Sync + Send>(self, f: F) -> Par<Self::Item> {
                self.map(move |x| {
                    f(&x);
                    x
                })
            }
            fn update<F: Fn(&mut Self::Item) + Sync + Send>(self, f: F) -> Par<Self::Item> {
                self.map(move |mut x| {
                    f(&mut x);
                    x
                })
            }
            fn filter<P: Fn(&Self::Item) -> bool + Sync + Send>(self, p: P) -> Par<Self::Item> {
                let m = self.map(move |x| if p(&x) { Some(x) } else { None });
                Par {
                    items: m.items.into_iter().flatten().collect(),
                    ordered: m.ordered,
                }
            }
            fn filter_map<R: Send, F: Fn(Self::Item) -> Option<R> + Sync + Send>(self, f: F) -> Par<R> {
                let m = self.map(f);
                Par {
                    items: m.items.into_iter().flatten().collect(),
                    ordered: m.ordered,
                }
            }
            fn flat_map<PI: IntoParallelIterator, F: Fn(Self::Item) -> PI + Sync + Send>(self, f: F) -> Par<PI::Item> {
                let m = self.map(move |x| f(x).into_par_iter().into_parts().0);
                Par {
                    items: m.items.into_iter().flatten().collect(),
                    ordered: m.ordered,
                }
            }
            fn flat_map_iter<SI: IntoIterator, F: Fn(Self::Item) -> SI + Sync + Send>(self, f: F) -> Par<SI::Item>
            where
                SI::Item: Send,
            {
                let m = self.map(move |x| f(x).into_iter().collect::<Vec<_>>());
                Par {
                    items: m.items.into_iter().flatten().collect(),
                    ordered: m.ordered,
                }
            }
            fn flatten(self) -> Par<<Self::Item as IntoParallelIterator>::Item>
            where
                Self::Item: IntoParallelIterator,
            {
                let (items, ordered) = self.into_parts();
                Par {
                    items: items.into_iter().flat_map(|x| x.into_par_iter().into_parts().0).collect(),
                    ordered,
                }
            }
            fn flatten_iter(self) -> Par<<Self::Item as IntoIterator>::Item>
            where
                Self::Item: IntoIterator,
                <Self::Item as IntoIterator>::Item: Send,
            {
                let (items, ordered) = self.into_parts();
                Par {
                    items: items.into_iter().flatten().collect(),
                    ordered,
                }
            }
            fn chain<C: IntoParallelIterator<Item = Self::Item>>(self, c: C) -> Par<Self::Item> {
                let (mut items, ordered) = self.into_parts();
                let (more, o2) = c.into_par_iter().into_parts();
                items.extend(more);
                Par { items, ordered: ordered && o2 }
            }
            fn cloned<'a, T: 'a + Clone + Send + Sync>(self) -> Par<T>
            where
                Self: ParallelIterator<Item = &'a T>,
            {
                let (items, ordered) = self.into_parts();
                Par {
                    items: items.into_iter().cloned().collect(),
                    ordered,
                }
            }
            fn copied<'a, T: 'a + Copy + Send + Sync>(self) -> Par<T>
            where
                Self: ParallelIterator<Item = &'a T>,
            {
                let (items, ordered) = self.into_parts();
                Par {
                    items: items.into_iter().copied().collect(),
                    ordered,
                }
            }
            fn count(self) -> usize {
                self.into_parts().0.len()
            }
            fn sum<S: Send + std::iter::Sum<Self::Item> + std::iter::Sum<S>>(self) -> S {
                leaves(self.into_parts().0).into_iter().map(|l| l.into_iter().sum::<S>()).sum()
            }
            fn product<P: Send + std::iter::Product<Self::Item> + std::iter::Product<P>>(self) -> P {
                leaves(self.into_parts().0).into_iter().map(|l| l.into_iter().product::<P>()).product()
            }
            fn min(self) -> Option<Self::Item>
            where
                Self::Item: Ord,
            {
                self.into_parts().0.into_iter().min()
            }
            fn max(self) -> Option<Self::Item>
            where
                Self::Item: Ord,
            {
                self.into_parts().0.into_iter().max()
            }
            fn min_by<F: Fn(&Self::Item, &Self::Item) -> Ordering + Sync + Send>(self, f: F) -> Option<Self::Item> {
                self.into_parts().0.into_iter().min_by(|a, b| f(a, b))
            }
            fn max_by<F: Fn(&Self::Item, &Self::Item) -> Ordering + Sync + Send>(self, f: F) -> Option<Self::Item> {
                self.into_parts().0.into_iter().max_by(|a, b| f(a, b))
            }
            fn min_by_key<K: Ord + Send, F: Fn(&Self::Item) -> K + Sync + Send>(self, f: F) -> Option<Self::Item> {
                self.into_parts().0.into_iter().min_by_key(|a| f(a))
            }
            fn max_by_key<K: Ord + Send, F: Fn(&Self::Item) -> K + Sync + Send>(self, f: F) -> Option<Self::Item> {
                self.into_parts().0.into_iter().max_by_key(|a| f(a))
            }
            /// each leaf of the split tree starts from `identity()`, the leaves are combined left
            /// to right: what rayon does, with the number of leaves following the pool size
            fn reduce<ID: Fn() -> Self::Item + Sync + Send, OP: Fn(Self::Item, Self::Item) -> Self::Item + Sync + Send>(self, identity: ID, op: OP) -> Self::Item {
                let parts: Vec<Self::Item> = leaves(self.into_parts().0)
                    .into_iter()
                    .map(|l| l.into_iter().fold(identity(), |a, b| op(a, b)))
                    .collect();
                parts.into_iter().fold(identity(), |a, b| op(a, b))
            }
            fn reduce_with<OP: Fn(Self::Item, Self::Item) -> Self::Item + Sync + Send>(self, op: OP) -> Option<Self::Item> {
                let parts: Vec<Self::Item> = leaves(self.into_parts().0)
                    .into_iter()
                    .filter_map(|l| l.into_iter().reduce(|a, b| op(a, b)))
                    .collect();
                parts.into_iter().reduce(|a, b| op(a, b))
            }
            fn fold<T: Send, ID: Fn() -> T + Sync + Send, F: Fn(T, Self::Item) -> T + Sync + Send>(self, identity: ID, f: F) -> Par<T> {
                let (items, ordered) = self.into_parts();
                let ls = leaves(items);
                Par {
                    items: run_parallel(ls, ordered, &|l: Vec<Self::Item>| l.into_iter().fold(identity(), |a, b| f(a, b))),
                    ordered,
                }
            }
            fn fold_with<T: Send + Clone, F: Fn(T, Self::Item) -> T + Sync + Send>(self, init: T, f: F) -> Par<T> {
                let init = std::sync::Mutex::new(init);
                self.fold(move || init.lock().unwrap().clone(), f)
            }
            fn any<P: Fn(Self::Item) -> bool + Sync + Send>(self, p: P) -> bool {
                self.map(p).items.into_iter().any(|b| b)
            }
            fn all<P: Fn(Self::Item) -> bool + Sync + Send>(self, p: P) -> bool {
                self.map(p).items.into_iter().all(|b| b)
            }
            /// some match: the one whose test completed first (a scheduling outcome)
            fn find_any<P: Fn(&Self::Item) -> bool + Sync + Send>(self, p: P) -> Option<Self::Item> {
                let (items, _) = self.into_parts();
                run_parallel(items, false, &|x| if p(&x) { Some(x) } else { None }).into_iter().flatten().next()
            }
            fn find_first<P: Fn(&Self::Item) -> bool + Sync + Send>(self, p: P) -> Option<Self::Item> {
                self.filter(p).items.into_iter().next()
            }
            fn find_last<P: Fn(&Self::Item) -> bool + Sync + Send>(self, p: P) -> Option<Self::Item> {
                self.filter(p).items.into_iter().last()
            }
            fn find_map_any<R: Send, P: Fn(Self::Item) -> Option<R> + Sync + Send>(self, p: P) -> Option<R> {
                let (items, _) = self.into_parts();
                run_parallel(items, false, &p).into_iter().flatten().next()
            }
            fn find_map_first<R: Send, P: Fn(Self::Item) -> Option<R> + Sync + Send>(self, p: P) -> Option<R> {
                self.filter_map(p).items.into_iter().next()
            }
            fn while_some<T: Send>(self) -> Par<T>
            where
                Self: ParallelIterator<Item = Option<T>>,
            {
                let (items, ordered) = self.into_parts();
                Par {
                    items: items.into_iter().map_while(|x| x).collect(),
                    ordered,
                }
            }
            fn panic_fuse(self) -> Par<Self::Item> {
                let (items, ordered) = self.into_parts();
                Par { items, ordered }
            }
            fn collect<C: FromParallelIterator<Self::Item>>(self) -> C {
                let (items, ordered) = self.into_parts();
                C::from_par_iter(Par { items, ordered })
            }
            fn unzip<A: Send, B: Send, FA: Default + Send + ParallelExtend<A>, FB: Default + Send + ParallelExtend<B>>(self) -> (FA, FB)
            where
                Self: ParallelIterator<Item = (A, B)>,
            {
                let (items, _) = self.into_parts();
                let (a, b): (Vec<A>, Vec<B>) = items.into_iter().unzip();
                let (mut fa, mut fb) = (FA::default(), FB::default());
                fa.par_extend(a);
                fb.par_extend(b);
                (fa, fb)
            }
            fn partition<A: Default + Send + ParallelExtend<Self::Item>, B: Default + Send + ParallelExtend<Self::Item>, P: Fn(&Self::Item) -> bool + Sync + Send>(self, p: P) -> (A, B) {
                let m = self.map(move |x| (p(&x), x));
                let (mut a, mut b) = (A::default(), B::default());
                let (yes, no): (Vec<_>, Vec<_>) = m.items.into_iter().partition(|(k, _)| *k);
                a.par_extend(yes.into_iter().map(|(_, x)| x).collect::<Vec<_>>());
                b.par_extend(no.into_iter().map(|(_, x)| x).collect::<Vec<_>>());
                (a, b)
            }
            fn opt_len(&self) -> Option<usize> {
                None
            }
            // ---- indexed adaptors (every source but `par_bridge` is indexed)
            fn enumerate(self) -> Par<(usize, Self::Item)> {
                let (items, ordered) = self.into_parts();
                Par {
                    items: items.into_iter().enumerate().collect(),
                    ordered,
                }
            }
            fn zip<Z: IntoParallelIterator>(self, z: Z) -> Par<(Self::Item, Z::Item)> {
                let (items, ordered) = self.into_parts();
                Par {
                    items: items.into_iter().zip(z.into_par_iter().into_parts().0).collect(),
                    ordered,
                }
            }
            fn zip_eq<Z: IntoParallelIterator>(self, z: Z) -> Par<(Self::Item, Z::Item)> {
                let (items, ordered) = self.into_parts();
                let other = z.into_par_iter().into_parts().0;
                assert_eq!(items.len(), other.len(), "iterators must have the same length");
                Par {
                    items: items.into_iter().zip(other).collect(),
                    ordered,
                }
            }
            fn rev(self) -> Par<Self::Item> {
                let (mut items, ordered) = self.into_parts();
                items.reverse();
                Par { items, ordered }
            }
            fn skip(self, n: usize) -> Par<Self::Item> {
                let (items, ordered) = self.into_parts();
                Par {
                    items: items.into_iter().skip(n).collect(),
                    ordered,
                }
            }
            fn take(self, n: usize) -> Par<Self::Item> {
                let (items, ordered) = self.into_parts();
                Par {
                    items: items.into_iter().take(n).collect(),
                    ordered,
                }
            }
            fn step_by(self, n: usize) -> Par<Self::Item> {
                let (items, ordered) = self.into_parts();
                Par {
                    items: items.into_iter().step_by(n).collect(),
                    ordered,
                }
            }
            fn chunks(self, n: usize) -> Par<Vec<Self::Item>> {
                let (items, ordered) = self.into_parts();
                let mut out = vec![];
                let mut cur = vec![];
                for x in items {
                    cur.push(x);
                    if cur.len() == n {
                        out.push(std::mem::take(&mut cur));
                    }
                }
                if !cur.is_empty() {
                    out.push(cur);
                }
                Par { items: out, ordered }
            }
            fn with_min_len(self, _n: usize) -> Par<Self::Item> {
                let (items, ordered) = self.into_parts();
                Par { items, ordered }
            }
            fn with_max_len(self, _n: usize) -> Par<Self::Item> {
                let (items, ordered) = self.into_parts();
                Par { items, ordered }
            }
            fn collect_into_vec(self, target: &mut Vec<Self::Item>) {
                target.clear();
                target.extend(self.into_parts().0);
            }
            fn position_any<P: Fn(Self::Item) -> bool + Sync + Send>(self, p: P) -> Option<usize> {
                self.map(p).items.into_iter().position(|b| b)
            }
            fn position_first<P: Fn(Self::Item) -> bool + Sync + Send>(self, p: P) -> Option<usize> {
                self.map(p).items.into_iter().position(|b| b)
            }
            fn len(&self) -> usize {
                0
            }
        }
        impl<T: Send> ParallelIterator for Par<T> {
            type Item = T;
            fn into_parts(self) -> (Vec<T>, bool) {
                (self.items, self.ordered)
            }
            fn opt_len(&self) -> Option<usize> {
                Some(self.items.len())
            }
            fn len(&self) -> usize {
                self.items.len()
            }
        }
        pub trait IndexedParallelIterator: ParallelIterator {}
        impl<T: Send> IndexedParallelIterator for Par<T> {}
    }

    pub mod slice {
        use super::iter::Par;
        use std::cmp::Ordering;
        pub trait ParallelSlice<T: Sync> {
            fn as_parallel_slice(&self) -> &[T];
            fn par_chunks(&self, n: usize) -> Par<&[T]> {
                Par {
                    items: self.as_parallel_slice().chunks(n).collect(),
                    ordered: true,
                }
            }
            fn par_chunks_exact(&self, n: usize) -> Par<&[T]> {
                Par {
                    items: self.as_parallel_slice().chunks_exact(n).collect(),
                    ordered: true,
                }
            }
            fn par_windows(&self, n: usize) -> Par<&[T]> {
                Par {
                    items: self.as_parallel_slice().windows(n).collect(),
                    ordered: true,
                }
            }
            fn par_split<P: Fn(&T) -> bool + Sync + Send>(&self, p: P) -> Par<&[T]> {
                Par {
                    items: self.as_parallel_slice().split(|x| p(x)).collect(),
                    ordered: true,
                }
            }
        }
        impl<T: Sync> ParallelSlice<T> for [T] {
            fn as_parallel_slice(&self) -> &[T] {
                self
            }
        }
        pub trait ParallelSliceMut<T: Send> {
            fn as_parallel_slice_mut(&mut self) -> &mut [T];
            fn par_chunks_mut(&mut self, n: usize) -> Par<&mut [T]> {
                Par {
                    items: self.as_parallel_slice_mut().chunks_mut(n).collect(),
                    ordered: true,
                }
            }
            fn par_sort(&mut self)
            where
                T: Ord,
            {
                self.as_parallel_slice_mut().sort()
            }
            fn par_sort_by<F: Fn(&T, &T) -> Ordering + Sync>(&mut self, f: F) {
                self.as_parallel_slice_mut().sort_by(|a, b| f(a, b))
            }
            fn par_sort_by_key<K: Ord, F: Fn(&T) -> K + Sync>(&mut self, f: F) {
                self.as_parallel_slice_mut().sort_by_key(|a| f(a))
            }
            fn par_sort_by_cached_key<K: Ord + Send, F: Fn(&T) -> K + Sync>(&mut self, f: F) {
                self.as_parallel_slice_mut().sort_by_cached_key(|a| f(a))
            }
            fn par_sort_unstable(&mut self)
            where
                T: Ord,
            {
                self.as_parallel_slice_mut().sort_unstable()
            }
            fn par_sort_unstable_by<F: Fn(&T, &T) -> Ordering + Sync>(&mut self, f: F) {
                self.as_parallel_slice_mut().sort_unstable_by(|a, b| f(a, b))
            }
            fn par_sort_unstable_by_key<K: Ord, F: Fn(&T) -> K + Sync>(&mut self, f: F) {
                self.as_parallel_slice_mut().sort_unstable_by_key(|a| f(a))
            }
        }
        impl<T: Send> ParallelSliceMut<T> for [T] {
            fn as_parallel_slice_mut(&mut self) -> &mut [T] {
                self
            }
        }
    }

    pub mod str {
        use super::iter::Par;
        pub trait ParallelString {
            fn as_parallel_string(&self) -> &str;
            fn par_lines(&self) -> Par<&str> {
                Par {
                    items: self.as_parallel_string().lines().collect(),
                    ordered: true,
                }
            }
            fn par_chars(&self) -> Par<char> {
                Par {
                    items: self.as_parallel_string().chars().collect(),
                    ordered: true,
                }
            }
            fn par_bytes(&self) -> Par<u8> {
                Par {
                    items: self.as_parallel_string().bytes().collect(),
                    ordered: true,
                }
            }
            fn par_split_whitespace(&self) -> Par<&str> {
                Par {
                    items: self.as_parallel_string().split_whitespace().collect(),
                    ordered: true,
                }
            }
            fn par_split(&self, sep: char) -> Par<&str> {
                Par {
                    items: self.as_parallel_string().split(sep).collect(),
                    ordered: true,
                }
            }
        }
        impl ParallelString for str {
            fn as_parallel_string(&self) -> &str {
                self
            }
        }
    }

    pub mod prelude {
        pub use super::iter::{
            FromParallelIterator, IndexedParallelIterator, IntoParallelIterator, IntoParallelRefIterator, IntoParallelRefMutIterator,
            ParallelBridge, ParallelExtend, ParallelIterator,
        };
        pub use super::slice::{ParallelSlice, ParallelSliceMut};
        pub use super::str::ParallelString;
    }

    /// `rayon::join`: the second closure on its own simulated thread
    pub fn join<A, B, RA, RB>(a: A, b: B) -> (RA, RB)
    where
        A: FnOnce() -> RA + Send,
        B: FnOnce() -> RB + Send,
        RA: Send,
        RB: Send,
    {
        world::with(|w| w.stats.parallel_stages += 1);
        let rb: std::sync::Mutex<Option<RB>> = std::sync::Mutex::new(None);
        let ra: std::sync::Mutex<Option<RA>> = std::sync::Mutex::new(None);
        run_to_completion(vec![
            Box::new(|| {
                *ra.lock().unwrap() = Some(a());
            }),
            Box::new(|| {
                *rb.lock().unwrap() = Some(b());
            }),
        ]);
        (ra.into_inner().unwrap().unwrap(), rb.into_inner().unwrap().unwrap())
    }

    type Body<'scope> = Box<dyn FnOnce(&Scope<'scope>) + Send + 'scope>;
    /// `rayon::scope`: spawned bodies are collected and run, a batch at a time, on simulated threads
    /// once the scope's own closure has returned (they may spawn further bodies)
    pub struct Scope<'scope> {
        pending: std::sync::Mutex<Vec<Body<'scope>>>,
    }
    impl<'scope> Scope<'scope> {
        pub fn spawn<BODY: FnOnce(&Scope<'scope>) + Send + 'scope>(&self, body: BODY) {
            self.pending.lock().unwrap().push(Box::new(body));
        }
    }
    pub fn scope<'scope, OP, R>(op: OP) -> R
    where
        OP: FnOnce(&Scope<'scope>) -> R + Send,
        R: Send,
    {
        let sc = Scope {
            pending: std::sync::Mutex::new(vec![]),
        };
        let r = op(&sc);
        loop {
            let batch: Vec<Body<'scope>> = std::mem::take(&mut *sc.pending.lock().unwrap());
            if batch.is_empty() {
                break;
            }
            world::with(|w| w.stats.parallel_stages += 1);
            let scref = &sc;
            run_to_completion(batch.into_iter().map(|b| Box::new(move || b(scref)) as Box<dyn FnOnce() + Send + '_>).collect());
        }
        r
    }
    pub fn spawn<F: FnOnce() + Send + 'static>(f: F) {
        let _ = super::simthread::spawn(f);
    }

    #[derive(Debug)]
    pub struct ThreadPoolBuildError;
    impl std::fmt::Display for ThreadPoolBuildError {
        fn fmt(&self, f: &mut std::fmt::Formatter) -> std::fmt::Result {
            write!(f, "the global thread pool has already been initialized")
        }
    }
    impl std::error::Error for ThreadPoolBuildError {}

    #[derive(Default)]
    pub struct ThreadPoolBuilder {
        threads: usize,
    }
    impl ThreadPoolBuilder {
        pub fn new() -> Self {
            Self::default()
        }
        pub fn num_threads(mut self, n: usize) -> Self {
            self.threads = n;
            self
        }
        pub fn thread_name<F: FnMut(usize) -> String + 'static>(self, _f: F) -> Self {
            self
        }
        pub fn stack_size(self, _n: usize) -> Self {
            self
        }
        pub fn build(self) -> Result<ThreadPool, ThreadPoolBuildError> {
            Ok(ThreadPool { threads: self.threads })
        }
        pub fn build_global(self) -> Result<(), ThreadPoolBuildError> {
            if self.threads > 0 {
                world::with(|w| w.rayon_threads = Some(self.threads as u32));
            }
            Ok(())
        }
    }
    pub struct ThreadPool {
        threads: usize,
    }
    impl ThreadPool {
        pub fn install<OP: FnOnce() -> R + Send, R: Send>(&self, op: OP) -> R {
            let before = world::with(|w| w.rayon_threads);
            if self.threads > 0 {
                world::with(|w| w.rayon_threads = Some(self.threads as u32));
            }
            let r = op();
            world::with(|w| w.rayon_threads = before);
            r
        }
        pub fn current_num_threads(&self) -> usize {
            if self.threads > 0 {
                self.threads
            } else {
                pool_size()
            }
        }
        pub fn join<A, B, RA, RB>(&self, a: A, b: B) -> (RA, RB)
        where
            A: FnOnce() -> RA + Send,
            B: FnOnce() -> RB + Send,
            RA: Send,
            RB: Send,
        {
            self.install(|| join(a, b))
        }
        pub fn scope<'scope, OP, R>(&self, op: OP) -> R
        where
            OP: FnOnce(&Scope<'scope>) -> R + Send,
            R: Send,
        {
            self.install(|| scope(op))
        }
        pub fn spawn<F: FnOnce() + Send + 'static>(&self, f: F) {
            spawn(f)
        }
    }
}
