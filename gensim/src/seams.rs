//! The seams the generators see instead of `std::fs` and the randomly keyed `std` containers.
//!
//! The generator sources are compiled unmodified (`include!`) inside a module in which the name
//! `std` resolves to [`shadow_std`]: everything is re-exported from the real `std`, except
//! `std::fs::{read_dir, read_to_string, read, File}`, `std::collections::{HashMap, HashSet}`
//! (also under `hash_map::` / `hash_set::`) and `RandomState`, which are owned by the simulator.

#![allow(dead_code)]

pub mod shadow_std {
    pub use ::std::*;

    pub mod collections {
        pub use super::super::coll::{HashMap, HashSet};
        pub use ::std::collections::*;
        pub mod hash_map {
            pub use super::super::super::coll::HashMap;
            pub use super::super::super::coll::SimBuild as RandomState;
            pub use ::std::collections::hash_map::*;
        }
        pub mod hash_set {
            pub use super::super::super::coll::HashSet;
            pub use ::std::collections::hash_set::*;
        }
    }

    pub mod hash {
        pub use super::super::coll::SimBuild as RandomState;
        pub use ::std::hash::*;
    }

    pub mod fs {
        pub use super::super::simfs::{read, read_dir, read_to_string, write, DirEntry, File, FileType, ReadDir};
        pub use ::std::fs::*;
    }

    pub mod io {
        pub use super::super::simio::{stdout, Stdout, StdoutLock};
        pub use ::std::io::*;
    }

    pub mod env {
        pub use super::super::simenv::{args, args_os, current_dir, var, var_os, vars};
        pub use ::std::env::*;
    }

    pub mod process {
        pub use super::super::simenv::exit;
        pub use ::std::process::*;
    }

    pub mod thread {
        pub use super::super::simthread::{scope, spawn, JoinHandle, Scope, ScopedJoinHandle};
        pub use ::std::thread::*;
    }
}

// =============================================================================================
// Collections
// =============================================================================================
pub mod coll {
    use crate::rng::Fnv;
    use crate::world::{self, IterRecord, Tweak};
    use std::borrow::Borrow;
    use std::cell::Cell;
    use std::collections::HashMap as StdMap;
    use std::collections::HashSet as StdSet;
    use std::hash::{BuildHasher, Hash, Hasher};
    use std::ops::{Deref, DerefMut};

    /// Seeded replacement of `RandomState`. Creating one is a simulator decision (keys + tweak).
    #[derive(Clone, Debug)]
    pub struct SimBuild {
        pub id: u32,
        pub kind: char,
        pub k0: u64,
        pub k1: u64,
        pub tweak: Tweak,
    }

    impl SimBuild {
        pub fn decide(kind: char) -> SimBuild {
            let (id, k0, k1, tweak) = world::with(|w| w.decide_container(kind));
            SimBuild { id, kind, k0, k1, tweak }
        }
        /// `RandomState::new()`
        #[allow(clippy::new_without_default)]
        pub fn new() -> SimBuild {
            SimBuild::decide('R')
        }
    }

    impl Default for SimBuild {
        fn default() -> Self {
            SimBuild::decide('R')
        }
    }

    impl BuildHasher for SimBuild {
        #[allow(deprecated)]
        type Hasher = std::hash::SipHasher;
        #[allow(deprecated)]
        fn build_hasher(&self) -> Self::Hasher {
            std::hash::SipHasher::new_with_keys(self.k0, self.k1)
        }
    }

    /// identity of a key for coverage bookkeeping: fixed-key hash (independent of the run's keys)
    #[allow(deprecated)]
    pub fn key_id<K: Hash + ?Sized>(k: &K) -> u64 {
        let mut h = std::hash::SipHasher::new_with_keys(0x5eed_c0de, 0x1d);
        k.hash(&mut h);
        h.finish()
    }

    /// Put the raw (bucket-order) elements into the order this container iterates in.
    /// `id_of` gives the fixed-key identity of an element's key (only evaluated for Zigzag).
    fn arrange<T>(mut v: Vec<T>, tweak: Tweak, id_of: impl Fn(&T) -> u64) -> Vec<T> {
        match tweak {
            Tweak::None => {}
            Tweak::Reverse => v.reverse(),
            Tweak::Rotate(p) => {
                if v.len() > 1 {
                    let r = (v.len() as u64 * p as u64 / 1000) as usize % v.len();
                    v.rotate_left(r);
                }
            }
            Tweak::Zigzag { index, reverse } => {
                // canonical base order: by key identity; then the family member's permutation
                let mut keyed: Vec<(u64, T)> = v.into_iter().map(|t| (id_of(&t), t)).collect();
                keyed.sort_by_key(|(id, _)| *id);
                let perm = world::zigzag(keyed.len(), index, reverse);
                let mut slots: Vec<Option<T>> = keyed.into_iter().map(|(_, t)| Some(t)).collect();
                v = perm.into_iter().map(|i| slots[i as usize].take().unwrap()).collect();
            }
        }
        v
    }

    fn note_iteration(b: &SimBuild, first: &Cell<bool>, ids: impl Iterator<Item = u64>) {
        let is_first = !first.replace(true);
        world::with(|w| {
            w.stats.iterations += 1;
            if is_first {
                let ids: Vec<u64> = ids.collect();
                let mut d = Fnv::default();
                for &i in &ids {
                    d.u64(i);
                }
                w.event("iter", b.id as u64, d.0);
                if w.collect {
                    w.iter_orders.push(IterRecord {
                        container: b.id,
                        kind: b.kind,
                        ids,
                    });
                }
            }
        });
    }

    // ---- HashMap ------------------------------------------------------------------------------

    pub struct HashMap<K, V> {
        inner: StdMap<K, V, SimBuild>,
        iterated: Cell<bool>,
    }

    impl<K, V> HashMap<K, V> {
        #[allow(clippy::new_without_default)]
        pub fn new() -> Self {
            Self::with_hasher(SimBuild::decide('M'))
        }
        pub fn with_capacity(n: usize) -> Self {
            HashMap {
                inner: StdMap::with_capacity_and_hasher(n, SimBuild::decide('M')),
                iterated: Cell::new(false),
            }
        }
        pub fn with_hasher(b: SimBuild) -> Self {
            HashMap {
                inner: StdMap::with_hasher(b),
                iterated: Cell::new(false),
            }
        }
        pub fn with_capacity_and_hasher(n: usize, b: SimBuild) -> Self {
            HashMap {
                inner: StdMap::with_capacity_and_hasher(n, b),
                iterated: Cell::new(false),
            }
        }
    }

    impl<K: Hash + Eq, V> HashMap<K, V> {
        fn note(&self) {
            note_iteration(
                self.inner.hasher(),
                &self.iterated,
                arrange(self.inner.keys().collect(), self.inner.hasher().tweak, |k| key_id(*k))
                    .into_iter()
                    .map(|k| key_id(k)),
            );
        }
        pub fn iter(&self) -> std::vec::IntoIter<(&K, &V)> {
            self.note();
            arrange(self.inner.iter().collect(), self.inner.hasher().tweak, |t| key_id(t.0)).into_iter()
        }
        pub fn iter_mut(&mut self) -> std::vec::IntoIter<(&K, &mut V)> {
            self.note();
            let t = self.inner.hasher().tweak;
            arrange(self.inner.iter_mut().collect(), t, |t| key_id(t.0)).into_iter()
        }
        pub fn keys(&self) -> std::vec::IntoIter<&K> {
            self.note();
            arrange(self.inner.keys().collect(), self.inner.hasher().tweak, |k| key_id(*k)).into_iter()
        }
        pub fn values(&self) -> std::vec::IntoIter<&V> {
            self.iter().map(|(_, v)| v).collect::<Vec<_>>().into_iter()
        }
        pub fn values_mut(&mut self) -> std::vec::IntoIter<&mut V> {
            self.iter_mut().map(|(_, v)| v).collect::<Vec<_>>().into_iter()
        }
        pub fn into_keys(self) -> std::vec::IntoIter<K> {
            self.into_iter().map(|(k, _)| k).collect::<Vec<_>>().into_iter()
        }
        pub fn into_values(self) -> std::vec::IntoIter<V> {
            self.into_iter().map(|(_, v)| v).collect::<Vec<_>>().into_iter()
        }
        pub fn drain(&mut self) -> std::vec::IntoIter<(K, V)> {
            self.note();
            let t = self.inner.hasher().tweak;
            arrange(self.inner.drain().collect(), t, |t| key_id(&t.0)).into_iter()
        }
    }

    impl<K, V> Deref for HashMap<K, V> {
        type Target = StdMap<K, V, SimBuild>;
        fn deref(&self) -> &Self::Target {
            &self.inner
        }
    }
    impl<K, V> DerefMut for HashMap<K, V> {
        fn deref_mut(&mut self) -> &mut Self::Target {
            &mut self.inner
        }
    }
    impl<K, V> Default for HashMap<K, V> {
        fn default() -> Self {
            Self::new()
        }
    }
    impl<K: Clone, V: Clone> Clone for HashMap<K, V> {
        fn clone(&self) -> Self {
            HashMap {
                inner: self.inner.clone(),
                iterated: Cell::new(false),
            }
        }
    }
    impl<K: std::fmt::Debug + Hash, V: std::fmt::Debug> std::fmt::Debug for HashMap<K, V> {
        fn fmt(&self, f: &mut std::fmt::Formatter) -> std::fmt::Result {
            let t = self.inner.hasher().tweak;
            f.debug_map()
                .entries(arrange(self.inner.iter().collect(), t, |t| key_id(t.0)))
                .finish()
        }
    }
    impl<K: Hash + Eq, V: PartialEq> PartialEq for HashMap<K, V> {
        fn eq(&self, o: &Self) -> bool {
            self.inner == o.inner
        }
    }
    impl<K: Hash + Eq, V: Eq> Eq for HashMap<K, V> {}
    impl<K: Hash + Eq, V> IntoIterator for HashMap<K, V> {
        type Item = (K, V);
        type IntoIter = std::vec::IntoIter<(K, V)>;
        fn into_iter(self) -> Self::IntoIter {
            self.note();
            let t = self.inner.hasher().tweak;
            arrange(self.inner.into_iter().collect(), t, |t| key_id(&t.0)).into_iter()
        }
    }
    impl<'a, K: Hash + Eq, V> IntoIterator for &'a HashMap<K, V> {
        type Item = (&'a K, &'a V);
        type IntoIter = std::vec::IntoIter<(&'a K, &'a V)>;
        fn into_iter(self) -> Self::IntoIter {
            self.iter()
        }
    }
    impl<'a, K: Hash + Eq, V> IntoIterator for &'a mut HashMap<K, V> {
        type Item = (&'a K, &'a mut V);
        type IntoIter = std::vec::IntoIter<(&'a K, &'a mut V)>;
        fn into_iter(self) -> Self::IntoIter {
            self.iter_mut()
        }
    }
    impl<K: Hash + Eq, V> FromIterator<(K, V)> for HashMap<K, V> {
        fn from_iter<I: IntoIterator<Item = (K, V)>>(it: I) -> Self {
            let mut m = HashMap::new();
            m.inner.extend(it);
            m
        }
    }
    impl<K: Hash + Eq, V> Extend<(K, V)> for HashMap<K, V> {
        fn extend<I: IntoIterator<Item = (K, V)>>(&mut self, it: I) {
            self.inner.extend(it)
        }
    }
    impl<K: Hash + Eq, V, const N: usize> From<[(K, V); N]> for HashMap<K, V> {
        fn from(a: [(K, V); N]) -> Self {
            a.into_iter().collect()
        }
    }
    impl<K: Hash + Eq + Borrow<Q>, Q: Hash + Eq + ?Sized, V> std::ops::Index<&Q> for HashMap<K, V> {
        type Output = V;
        fn index(&self, k: &Q) -> &V {
            self.inner.get(k).expect("no entry found for key")
        }
    }

    // ---- HashSet ------------------------------------------------------------------------------

    pub struct HashSet<T> {
        inner: StdSet<T, SimBuild>,
        iterated: Cell<bool>,
    }

    impl<T> HashSet<T> {
        #[allow(clippy::new_without_default)]
        pub fn new() -> Self {
            Self::with_hasher(SimBuild::decide('S'))
        }
        pub fn with_capacity(n: usize) -> Self {
            HashSet {
                inner: StdSet::with_capacity_and_hasher(n, SimBuild::decide('S')),
                iterated: Cell::new(false),
            }
        }
        pub fn with_hasher(b: SimBuild) -> Self {
            HashSet {
                inner: StdSet::with_hasher(b),
                iterated: Cell::new(false),
            }
        }
    }

    impl<T: Hash + Eq> HashSet<T> {
        fn note(&self) {
            note_iteration(
                self.inner.hasher(),
                &self.iterated,
                arrange(self.inner.iter().collect(), self.inner.hasher().tweak, |k| key_id(*k))
                    .into_iter()
                    .map(|k| key_id(k)),
            );
        }
        pub fn iter(&self) -> std::vec::IntoIter<&T> {
            self.note();
            arrange(self.inner.iter().collect(), self.inner.hasher().tweak, |k| key_id(*k)).into_iter()
        }
        pub fn drain(&mut self) -> std::vec::IntoIter<T> {
            self.note();
            let t = self.inner.hasher().tweak;
            arrange(self.inner.drain().collect(), t, |k| key_id(k)).into_iter()
        }
    }

    impl<T> Deref for HashSet<T> {
        type Target = StdSet<T, SimBuild>;
        fn deref(&self) -> &Self::Target {
            &self.inner
        }
    }
    impl<T> DerefMut for HashSet<T> {
        fn deref_mut(&mut self) -> &mut Self::Target {
            &mut self.inner
        }
    }
    impl<T> Default for HashSet<T> {
        fn default() -> Self {
            Self::new()
        }
    }
    impl<T: Clone> Clone for HashSet<T> {
        fn clone(&self) -> Self {
            HashSet {
                inner: self.inner.clone(),
                iterated: Cell::new(false),
            }
        }
    }
    impl<T: std::fmt::Debug + Hash> std::fmt::Debug for HashSet<T> {
        fn fmt(&self, f: &mut std::fmt::Formatter) -> std::fmt::Result {
            let t = self.inner.hasher().tweak;
            f.debug_set()
                .entries(arrange(self.inner.iter().collect(), t, |k| key_id(*k)))
                .finish()
        }
    }
    impl<T: Hash + Eq> PartialEq for HashSet<T> {
        fn eq(&self, o: &Self) -> bool {
            self.inner == o.inner
        }
    }
    impl<T: Hash + Eq> Eq for HashSet<T> {}
    impl<T: Hash + Eq> IntoIterator for HashSet<T> {
        type Item = T;
        type IntoIter = std::vec::IntoIter<T>;
        fn into_iter(self) -> Self::IntoIter {
            self.note();
            let t = self.inner.hasher().tweak;
            arrange(self.inner.into_iter().collect(), t, |k| key_id(k)).into_iter()
        }
    }
    impl<'a, T: Hash + Eq> IntoIterator for &'a HashSet<T> {
        type Item = &'a T;
        type IntoIter = std::vec::IntoIter<&'a T>;
        fn into_iter(self) -> Self::IntoIter {
            self.iter()
        }
    }
    impl<T: Hash + Eq> FromIterator<T> for HashSet<T> {
        fn from_iter<I: IntoIterator<Item = T>>(it: I) -> Self {
            let mut m = HashSet::new();
            m.inner.extend(it);
            m
        }
    }
    impl<T: Hash + Eq> Extend<T> for HashSet<T> {
        fn extend<I: IntoIterator<Item = T>>(&mut self, it: I) {
            self.inner.extend(it)
        }
    }
    impl<T: Hash + Eq, const N: usize> From<[T; N]> for HashSet<T> {
        fn from(a: [T; N]) -> Self {
            a.into_iter().collect()
        }
    }
}

// =============================================================================================
// File system
// =============================================================================================
pub mod simfs {
    use crate::rng::{Fnv, Rng};
    use crate::world;
    use std::ffi::OsString;
    use std::io;
    use std::path::{Path, PathBuf};
    use std::sync::Arc;

    pub struct FileType {
        is_dir: bool,
    }
    impl FileType {
        pub fn is_dir(&self) -> bool {
            self.is_dir
        }
        pub fn is_file(&self) -> bool {
            !self.is_dir
        }
        pub fn is_symlink(&self) -> bool {
            false
        }
    }

    #[derive(Debug)]
    pub struct DirEntry {
        path: PathBuf,
        name: String,
        is_dir: bool,
    }
    impl DirEntry {
        pub fn path(&self) -> PathBuf {
            self.path.clone()
        }
        pub fn file_name(&self) -> OsString {
            OsString::from(&self.name)
        }
        pub fn file_type(&self) -> io::Result<FileType> {
            Ok(FileType { is_dir: self.is_dir })
        }
        /// not simulated: answered by the real file system (same tree the image was loaded from)
        pub fn metadata(&self) -> io::Result<std::fs::Metadata> {
            world::with(|w| w.stats.fs_escapes += 1);
            std::fs::metadata(real_path(&self.path))
        }
    }

    fn real_path(p: &Path) -> PathBuf {
        if p.is_absolute() {
            p.to_path_buf()
        } else {
            world::with(|w| w.image.crate_dir.join(p))
        }
    }

    pub struct ReadDir {
        entries: std::vec::IntoIter<DirEntry>,
        yielded: u64,
    }
    impl Iterator for ReadDir {
        type Item = io::Result<DirEntry>;
        fn next(&mut self) -> Option<Self::Item> {
            let idx = self.yielded;
            self.yielded += 1;
            let fault = world::with(|w| match w.hard {
                Some(h) if h.kind == world::HardKind::DirEntryErr && h.at == idx && !w.hard_fired => {
                    w.hard_fired = true;
                    w.event("hard_fault", h.kind as u64, idx);
                    true
                }
                _ => false,
            });
            if fault {
                return Some(Err(io::Error::new(io::ErrorKind::Other, "simulated EIO while listing")));
            }
            self.entries.next().map(Ok)
        }
    }

    pub fn read_dir<P: AsRef<Path>>(p: P) -> io::Result<ReadDir> {
        let p = p.as_ref();
        let key = world::with(|w| w.image.normalise(p));
        let (label, sorted): (String, Vec<(String, bool)>) = match key {
            Some(k) => {
                let children = world::with(|w| w.image.dirs.get(&k).cloned());
                match children {
                    Some(c) => (k, c),
                    None => {
                        let is_file = world::with(|w| w.image.files.contains_key(&k));
                        return Err(if is_file {
                            io::Error::new(io::ErrorKind::Other, "Not a directory")
                        } else {
                            io::Error::new(io::ErrorKind::NotFound, "No such file or directory")
                        });
                    }
                }
            }
            None => {
                // outside the image: list the real directory, sorted, then let the simulator order it
                world::with(|w| w.stats.fs_escapes += 1);
                let mut c = vec![];
                for e in std::fs::read_dir(real_path(p))? {
                    let e = e?;
                    let is_dir = e.path().is_dir();
                    c.push((e.file_name().to_string_lossy().into_owned(), is_dir));
                }
                c.sort();
                (format!("<real>{}", p.display()), c)
            }
        };
        let order = world::with(|w| w.decide_read_dir(&label, sorted.len()));
        let entries: Vec<DirEntry> = order
            .iter()
            .map(|&i| {
                let (name, is_dir) = &sorted[i as usize];
                DirEntry {
                    path: p.join(name),
                    name: name.clone(),
                    is_dir: *is_dir,
                }
            })
            .collect();
        world::with(|w| {
            if w.collect {
                w.dir_orders
                    .push((label.clone(), entries.iter().map(|e| e.name.clone()).collect()));
            }
        });
        let fail = world::with(|w| match w.hard {
            Some(h) if h.kind == world::HardKind::ReadDirErr && !w.hard_fired => {
                w.hard_fired = true;
                w.event("hard_fault", h.kind as u64, 0);
                true
            }
            _ => false,
        });
        if fail {
            return Err(io::Error::new(io::ErrorKind::PermissionDenied, "simulated EACCES on read_dir"));
        }
        Ok(ReadDir {
            entries: entries.into_iter(),
            yielded: 0,
        })
    }

    fn fetch(p: &Path) -> io::Result<(String, Arc<Vec<u8>>)> {
        let key = world::with(|w| w.image.normalise(p));
        match key {
            Some(k) => {
                let f = world::with(|w| w.image.files.get(&k).cloned());
                match f {
                    Some(d) => Ok((k, d)),
                    None => {
                        let is_dir = world::with(|w| w.image.dirs.contains_key(&k));
                        Err(if is_dir {
                            io::Error::new(io::ErrorKind::Other, "Is a directory")
                        } else {
                            io::Error::new(io::ErrorKind::NotFound, "No such file or directory")
                        })
                    }
                }
            }
            None => {
                world::with(|w| w.stats.fs_escapes += 1);
                let d = std::fs::read(real_path(p))?;
                Ok((format!("<real>{}", p.display()), Arc::new(d)))
            }
        }
    }

    /// content of a file as this run sees it: in the non-gating fault exploration the planned
    /// read / open fails or delivers torn or corrupt content
    fn content_with_hard_fault(d: &Arc<Vec<u8>>) -> io::Result<Arc<Vec<u8>>> {
        let fault = world::with(|w| {
            let idx = w.reads_seen;
            w.reads_seen += 1;
            match w.hard {
                Some(h) if h.at == idx && !w.hard_fired => match h.kind {
                    world::HardKind::ReadEio
                    | world::HardKind::ReadEnoent
                    | world::HardKind::Truncated
                    | world::HardKind::BitFlip => {
                        w.hard_fired = true;
                        w.event("hard_fault", h.kind as u64, idx);
                        Some(h)
                    }
                    _ => None,
                },
                _ => None,
            }
        });
        let Some(h) = fault else { return Ok(d.clone()) };
        let mut data = (**d).clone();
        match h.kind {
            world::HardKind::ReadEio => return Err(io::Error::new(io::ErrorKind::Other, "simulated EIO")),
            world::HardKind::ReadEnoent => return Err(io::Error::new(io::ErrorKind::NotFound, "simulated ENOENT")),
            world::HardKind::Truncated => {
                let n = if data.is_empty() { 0 } else { (h.salt % data.len() as u64) as usize };
                data.truncate(n);
            }
            world::HardKind::BitFlip => {
                if !data.is_empty() {
                    let i = (h.salt % data.len() as u64) as usize;
                    data[i] ^= 1 << ((h.salt >> 32) % 8);
                }
            }
            _ => {}
        }
        Ok(Arc::new(data))
    }

    pub fn read<P: AsRef<Path>>(p: P) -> io::Result<Vec<u8>> {
        let (k, d) = fetch(p.as_ref())?;
        let data = content_with_hard_fault(&d)?;
        world::with(|w| {
            w.stats.whole_file_reads += 1;
            w.stats.bytes_read += data.len() as u64;
            let mut pd = Fnv::default();
            pd.str(&k);
            w.event("read", pd.0, data.len() as u64);
        });
        Ok((*data).clone())
    }

    pub fn read_to_string<P: AsRef<Path>>(p: P) -> io::Result<String> {
        let v = read(p)?;
        String::from_utf8(v).map_err(|_| {
            io::Error::new(io::ErrorKind::InvalidData, "stream did not contain valid UTF-8")
        })
    }

    /// Read-only simulated file. With a non-zero `io_seed` its `read` delivers short reads and
    /// `ErrorKind::Interrupted`, both of which `Read`'s contract allows at any time.
    pub struct File {
        data: Arc<Vec<u8>>,
        pos: usize,
        rng: Option<Rng>,
        consecutive_eintr: u32,
        /// Some(key) = created for writing: bytes go to the run's captured files
        write_key: Option<String>,
    }

    fn write_key_of(p: &Path) -> String {
        world::with(|w| w.image.normalise(p)).unwrap_or_else(|| p.display().to_string())
    }

    /// `fs::write`: captured, never touches the real tree
    pub fn write<P: AsRef<Path>, C: AsRef<[u8]>>(p: P, contents: C) -> io::Result<()> {
        let key = write_key_of(p.as_ref());
        let c = contents.as_ref().to_vec();
        world::with(|w| {
            let mut d = Fnv::default();
            d.bytes(&c);
            let mut pd = Fnv::default();
            pd.str(&key);
            w.event("fs_write", pd.0, d.0);
            w.written.insert(key, c);
        });
        Ok(())
    }

    impl File {
        pub fn open<P: AsRef<Path>>(p: P) -> io::Result<File> {
            let (k, d) = fetch(p.as_ref())?;
            let d = content_with_hard_fault(&d)?;
            let io_seed = world::with(|w| w.decide_open(&k));
            Ok(File {
                data: d,
                pos: 0,
                rng: if io_seed == 0 { None } else { Some(Rng::new(io_seed)) },
                consecutive_eintr: 0,
                write_key: None,
            })
        }
        /// `File::create`: captured, never touches the real tree
        pub fn create<P: AsRef<Path>>(p: P) -> io::Result<File> {
            let key = write_key_of(p.as_ref());
            world::with(|w| {
                let mut pd = Fnv::default();
                pd.str(&key);
                w.event("create", pd.0, 0);
                w.written.insert(key.clone(), vec![]);
            });
            Ok(File {
                data: Arc::new(vec![]),
                pos: 0,
                rng: None,
                consecutive_eintr: 0,
                write_key: Some(key),
            })
        }
        /// not simulated
        pub fn metadata(&self) -> io::Result<std::fs::Metadata> {
            Err(io::Error::new(io::ErrorKind::Unsupported, "metadata of a simulated file"))
        }
    }

    impl io::Read for File {
        fn read(&mut self, buf: &mut [u8]) -> io::Result<usize> {
            let remaining = self.data.len() - self.pos;
            let mut n = remaining.min(buf.len());
            if let Some(rng) = self.rng.as_mut() {
                if n > 0 && self.consecutive_eintr < 3 && rng.chance(1, 8) {
                    self.consecutive_eintr += 1;
                    world::with(|w| {
                        w.stats.eintr += 1;
                        w.event("eintr", self.pos as u64, 0);
                    });
                    return Err(io::Error::new(io::ErrorKind::Interrupted, "simulated EINTR"));
                }
                self.consecutive_eintr = 0;
                if n > 1 && rng.chance(1, 2) {
                    n = 1 + rng.below(n as u64 - 1) as usize;
                    world::with(|w| w.stats.short_reads += 1);
                }
            }
            buf[..n].copy_from_slice(&self.data[self.pos..self.pos + n]);
            self.pos += n;
            world::with(|w| {
                w.stats.bytes_read += n as u64;
                w.event("fread", self.pos as u64, n as u64);
            });
            Ok(n)
        }
    }

    impl io::Write for File {
        fn write(&mut self, buf: &[u8]) -> io::Result<usize> {
            let Some(key) = self.write_key.clone() else {
                return Err(io::Error::new(io::ErrorKind::PermissionDenied, "file not opened for writing"));
            };
            world::with(|w| {
                let mut d = Fnv::default();
                d.bytes(buf);
                w.event("fwrite", d.0, buf.len() as u64);
                w.written.entry(key).or_default().extend_from_slice(buf);
            });
            Ok(buf.len())
        }
        fn flush(&mut self) -> io::Result<()> {
            Ok(())
        }
    }

    impl io::Seek for File {
        fn seek(&mut self, s: io::SeekFrom) -> io::Result<u64> {
            let new = match s {
                io::SeekFrom::Start(o) => o as i128,
                io::SeekFrom::End(o) => self.data.len() as i128 + o as i128,
                io::SeekFrom::Current(o) => self.pos as i128 + o as i128,
            };
            if new < 0 {
                return Err(io::Error::new(io::ErrorKind::InvalidInput, "negative seek"));
            }
            self.pos = (new as usize).min(self.data.len());
            Ok(self.pos as u64)
        }
    }
}

// =============================================================================================
// stdout handle, environment, process exit
// =============================================================================================
pub mod simio {
    use std::io;

    pub struct Stdout;
    pub struct StdoutLock;
    pub fn stdout() -> Stdout {
        Stdout
    }
    impl Stdout {
        pub fn lock(&self) -> StdoutLock {
            StdoutLock
        }
    }
    fn put(buf: &[u8]) -> io::Result<usize> {
        super::emit_str(&String::from_utf8_lossy(buf));
        Ok(buf.len())
    }
    impl io::Write for Stdout {
        fn write(&mut self, buf: &[u8]) -> io::Result<usize> {
            put(buf)
        }
        fn flush(&mut self) -> io::Result<()> {
            Ok(())
        }
    }
    impl io::Write for &Stdout {
        fn write(&mut self, buf: &[u8]) -> io::Result<usize> {
            put(buf)
        }
        fn flush(&mut self) -> io::Result<()> {
            Ok(())
        }
    }
    impl io::Write for StdoutLock {
        fn write(&mut self, buf: &[u8]) -> io::Result<usize> {
            put(buf)
        }
        fn flush(&mut self) -> io::Result<()> {
            Ok(())
        }
    }
}

pub mod simenv {
    use crate::world;
    use std::ffi::{OsStr, OsString};

    /// payload of the unwinding that stands for `process::exit(code)` inside a simulated run
    pub struct ExitRequest(pub i32);

    /// the generators are run as `cargo run --bin <name>`: no arguments
    pub fn args() -> std::vec::IntoIter<String> {
        vec!["generator".to_string()].into_iter()
    }
    pub fn args_os() -> std::vec::IntoIter<OsString> {
        vec![OsString::from("generator")].into_iter()
    }
    /// deterministic environment: only what cargo sets for the crate is visible
    pub fn var<K: AsRef<OsStr>>(k: K) -> Result<String, std::env::VarError> {
        match k.as_ref().to_str() {
            Some("CARGO_MANIFEST_DIR") => Ok(world::with(|w| w.image.crate_dir.display().to_string())),
            Some("CARGO_PKG_NAME") => Ok("unic-langid-impl".to_string()),
            _ => Err(std::env::VarError::NotPresent),
        }
    }
    pub fn var_os<K: AsRef<OsStr>>(k: K) -> Option<OsString> {
        var(k).ok().map(OsString::from)
    }
    pub fn vars() -> std::vec::IntoIter<(String, String)> {
        vec![].into_iter()
    }
    pub fn current_dir() -> std::io::Result<std::path::PathBuf> {
        Ok(world::with(|w| w.image.crate_dir.clone()))
    }
    pub fn exit(code: i32) -> ! {
        std::panic::panic_any(ExitRequest(code))
    }
}

// =============================================================================================
// Threads: bodies run as atomic tasks on the simulator's own thread
// =============================================================================================
/// The pinned generators are single-threaded; this shim exists so that a generator rewritten to
/// use worker threads still runs under the simulator instead of escaping it. A spawned body runs
/// to completion without preemption, either at `spawn` (eager) or — for `'static` spawns, by
/// simulator decision — deferred until the first `join`, at which point all deferred bodies run
/// in a simulator-chosen order. Scoped threads run eagerly. This explores the completion orders of
/// whole thread bodies, not interleavings inside them.
pub mod simthread {
    use crate::world;
    use std::any::Any;
    use std::cell::RefCell;
    use std::marker::PhantomData;
    use std::panic::{catch_unwind, AssertUnwindSafe};
    use std::rc::Rc;

    type Res<T> = Result<T, Box<dyn Any + Send + 'static>>;

    thread_local! {
        static PENDING: RefCell<Vec<Box<dyn FnOnce()>>> = const { RefCell::new(Vec::new()) };
    }

    /// drop deferred bodies that were never joined (a real process exit kills such threads)
    pub fn reset() {
        PENDING.with(|p| p.borrow_mut().clear());
    }

    fn run_pending() {
        let tasks: Vec<Box<dyn FnOnce()>> = PENDING.with(|p| std::mem::take(&mut *p.borrow_mut()));
        if tasks.is_empty() {
            return;
        }
        let order = world::with(|w| w.decide_task_order(tasks.len()));
        let mut slots: Vec<Option<Box<dyn FnOnce()>>> = tasks.into_iter().map(Some).collect();
        for i in order {
            if let Some(t) = slots[i as usize].take() {
                t();
            }
        }
    }

    pub struct JoinHandle<T> {
        slot: Rc<RefCell<Option<Res<T>>>>,
    }

    impl<T> JoinHandle<T> {
        pub fn join(self) -> Res<T> {
            if self.slot.borrow().is_none() {
                run_pending();
            }
            let r = self.slot.borrow_mut().take();
            r.expect("simulated thread body did not run")
        }
        pub fn is_finished(&self) -> bool {
            self.slot.borrow().is_some()
        }
    }

    pub fn spawn<F, T>(f: F) -> JoinHandle<T>
    where
        F: FnOnce() -> T + Send + 'static,
        T: Send + 'static,
    {
        let slot: Rc<RefCell<Option<Res<T>>>> = Rc::new(RefCell::new(None));
        let eager = world::with(|w| w.decide_spawn());
        if eager {
            *slot.borrow_mut() = Some(catch_unwind(AssertUnwindSafe(f)));
        } else {
            let s2 = slot.clone();
            PENDING.with(|p| {
                p.borrow_mut().push(Box::new(move || {
                    *s2.borrow_mut() = Some(catch_unwind(AssertUnwindSafe(f)));
                }))
            });
        }
        JoinHandle { slot }
    }

    pub struct Scope<'scope, 'env: 'scope> {
        _scope: PhantomData<&'scope mut &'scope ()>,
        _env: PhantomData<&'env mut &'env ()>,
    }

    pub struct ScopedJoinHandle<'scope, T> {
        result: Option<Res<T>>,
        _scope: PhantomData<&'scope ()>,
    }

    impl<T> ScopedJoinHandle<'_, T> {
        pub fn join(mut self) -> Res<T> {
            self.result.take().expect("scoped body ran at spawn")
        }
        pub fn is_finished(&self) -> bool {
            true
        }
    }

    impl<'scope, 'env> Scope<'scope, 'env> {
        pub fn spawn<F, T>(&'scope self, f: F) -> ScopedJoinHandle<'scope, T>
        where
            F: FnOnce() -> T + Send + 'scope,
            T: Send + 'scope,
        {
            world::with(|w| w.note_scoped_spawn());
            ScopedJoinHandle {
                result: Some(catch_unwind(AssertUnwindSafe(f))),
                _scope: PhantomData,
            }
        }
    }

    pub fn scope<'env, F, T>(f: F) -> T
    where
        F: for<'scope> FnOnce(&'scope Scope<'scope, 'env>) -> T,
    {
        let s = Scope {
            _scope: PhantomData,
            _env: PhantomData,
        };
        f(&s)
    }
}

pub fn emit_str(s: &str) {
    crate::world::with(|w| {
        w.out.push_str(s);
        w.stats.prints += 1;
        let mut d = crate::rng::Fnv::default();
        d.bytes(s.as_bytes());
        w.event("print", d.0, s.len() as u64);
    });
}

/// stdout of the generator
pub fn emit(args: std::fmt::Arguments, newline: bool) {
    // format outside the world borrow: a Display impl may itself iterate a simulated container
    let mut s = std::fmt::format(args);
    if newline {
        s.push('\n');
    }
    crate::world::with(|w| {
        w.out.push_str(&s);
        w.stats.prints += 1;
        let mut d = crate::rng::Fnv::default();
        d.bytes(s.as_bytes());
        w.event("print", d.0, s.len() as u64);
    });
}
