//! The only source of randomness in the simulator: splitmix64 seeding + xoshiro256**.
//! One integer (VERIF_SEED) and a run index decide a whole run.

#[derive(Clone, Debug)]
pub struct Rng {
    s: [u64; 4],
    /// number of draws so far (diagnostics only; never influences a draw)
    pub draws: u64,
}

pub fn splitmix64(x: &mut u64) -> u64 {
    *x = x.wrapping_add(0x9E37_79B9_7F4A_7C15);
    let mut z = *x;
    z = (z ^ (z >> 30)).wrapping_mul(0xBF58_476D_1CE4_E5B9);
    z = (z ^ (z >> 27)).wrapping_mul(0x94D0_49BB_1331_11EB);
    z ^ (z >> 31)
}

/// Root seed of run `run` of stream `stream` under the batch seed `seed`.
pub fn run_seed(seed: u64, stream: u64, run: u64) -> u64 {
    let mut x = seed ^ 0xA076_1D64_78BD_642F;
    let a = splitmix64(&mut x);
    let mut y = a ^ stream.wrapping_mul(0xE703_7ED1_A0B4_28DB);
    let b = splitmix64(&mut y);
    let mut z = b ^ run.wrapping_mul(0x8EBC_6AF0_9C88_C6E3);
    splitmix64(&mut z)
}

impl Rng {
    pub fn new(seed: u64) -> Self {
        let mut x = seed;
        let s = [
            splitmix64(&mut x),
            splitmix64(&mut x),
            splitmix64(&mut x),
            splitmix64(&mut x),
        ];
        Rng { s, draws: 0 }
    }

    pub fn next_u64(&mut self) -> u64 {
        self.draws += 1;
        let r = self.s[1].wrapping_mul(5).rotate_left(7).wrapping_mul(9);
        let t = self.s[1] << 17;
        self.s[2] ^= self.s[0];
        self.s[3] ^= self.s[1];
        self.s[1] ^= self.s[2];
        self.s[0] ^= self.s[3];
        self.s[2] ^= t;
        self.s[3] = self.s[3].rotate_left(45);
        r
    }

    /// Uniform in 0..n (n > 0), unbiased enough for simulation purposes (128-bit multiply).
    pub fn below(&mut self, n: u64) -> u64 {
        debug_assert!(n > 0);
        (((self.next_u64() as u128) * (n as u128)) >> 64) as u64
    }

    pub fn chance(&mut self, num: u64, den: u64) -> bool {
        self.below(den) < num
    }

    pub fn shuffle<T>(&mut self, v: &mut [T]) {
        for i in (1..v.len()).rev() {
            let j = self.below(i as u64 + 1) as usize;
            v.swap(i, j);
        }
    }
}

/// FNV-1a 64: used for digests of logs/outputs (not for decisions).
#[derive(Clone, Copy)]
pub struct Fnv(pub u64);
impl Default for Fnv {
    fn default() -> Self {
        Fnv(0xcbf2_9ce4_8422_2325)
    }
}
impl Fnv {
    pub fn bytes(&mut self, b: &[u8]) {
        for &x in b {
            self.0 ^= x as u64;
            self.0 = self.0.wrapping_mul(0x0000_0100_0000_01B3);
        }
    }
    pub fn u64(&mut self, v: u64) {
        self.bytes(&v.to_le_bytes());
    }
    pub fn str(&mut self, s: &str) {
        self.bytes(s.as_bytes());
        self.bytes(&[0xff]);
    }
}
