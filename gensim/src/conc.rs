//! S7 (round 11) — **concurrent callers of the lookup.**
//!
//! S4 and S6 observe the tables *through* the code that reads them, one call after another on one
//! thread, in several orders. A program that uses the library from several threads adds a degree
//! of freedom no sequence of calls has: the interleaving of what the lookups do to whatever state
//! they share. The pinned lookup shares nothing (immutable statics: every interleaving gives the
//! same answers, and under the engine a lookup is a single step), so this check costs next to
//! nothing on the unchanged tree. A lookup that grows process-wide state — a position memo in a
//! pair of atomics (seeded `m42`), an index behind a lock, statistics that steer a fast path — is
//! where a particular interleaving makes the answer for one CLDR key the answer stored for
//! another, while every single-threaded sweep stays clean.
//!
//! System under simulation: the library's own source, compiled a second time with the engine's
//! `sync`/`thread` (libsim.rs), called from two to four simulated caller threads. The simulator
//! owns the scheduler: at every synchronisation operation inside a lookup it decides which caller
//! proceeds (seeded policy: uniform, sticky, priority-with-change-points; or an explicit list of
//! deviations from the no-preemption default when replaying). The workload — which rows each
//! thread asks for, in which order, which directions — is drawn from the same seed. Oracle: every
//! answer must be the value stored in the row asked for (decoded by the harness), every direction
//! the one the row's script has in the direction tables.
//!
//! A library with process-wide state gets a forked child per run (fresh statics, like a fresh
//! process; the state one run leaves behind would otherwise make the next run's outcome depend on
//! it and the replay inexact).

use crate::libsim::root as lib;
use crate::oracle::Violation;
use crate::rng::{Fnv, Rng};
use lib::likelysubtags as ls;
use lib::subtags::{Language, Region, Script};
use serde_json::json;
use std::collections::{BTreeMap, BTreeSet, HashSet};
use std::sync::{Arc, Mutex};

pub const BUILT: bool = true;

type Text = (String, Option<String>, Option<String>);
type RawV = (Option<u64>, Option<u32>, Option<u32>);

/// The harness's decoding of a stored integer (oracle.rs: own little-endian unpacker, or — when
/// the library's integer form is consistently something else, control `s7` — the reverse of the
/// library's own conversions over every CLDR subtag).
fn lang_text(v: u64) -> Option<String> {
    crate::oracle::decode_lang(v as u128).ok()
}
fn script_text(v: u32) -> Option<String> {
    crate::oracle::decode_script(v as u128).ok()
}
fn region_text(v: u32) -> Option<String> {
    crate::oracle::decode_region(v as u128).ok()
}

fn value_text(v: RawV) -> Option<Text> {
    Some((
        lang_text(v.0?)?,
        match v.1 {
            Some(x) => Some(script_text(x)?),
            None => None,
        },
        match v.2 {
            Some(x) => Some(region_text(x)?),
            None => None,
        },
    ))
}

#[derive(Clone, Debug)]
enum Ask {
    Max { label: String, table: &'static str, lang: Language, script: Option<Script>, region: Option<Region>, expect: Text },
    Dir { label: String, li: lib::LanguageIdentifier, expect: String },
}

impl Ask {
    fn label(&self) -> &str {
        match self {
            Ask::Max { label, .. } | Ask::Dir { label, .. } => label,
        }
    }
}

const TABLES: [&str; 6] = ["LANG_ONLY", "LANG_REGION", "LANG_SCRIPT", "SCRIPT_REGION", "SCRIPT_ONLY", "REGION_ONLY"];

fn table_len(t: usize) -> usize {
    match t {
        0 => ls::LANG_ONLY.len(),
        1 => ls::LANG_REGION.len(),
        2 => ls::LANG_SCRIPT.len(),
        3 => ls::SCRIPT_REGION.len(),
        4 => ls::SCRIPT_ONLY.len(),
        _ => ls::REGION_ONLY.len(),
    }
}

fn row(t: usize, i: usize) -> Option<Ask> {
    let (key, value): ((Option<u64>, Option<u32>, Option<u32>), RawV) = match t {
        0 => {
            let (k, v) = *ls::LANG_ONLY.get(i)?;
            if k as u128 == crate::oracle::und_key() {
                return None; // the bare und key: not reachable by design
            }
            ((Some(k), None, None), v)
        }
        1 => {
            let (a, b, v) = *ls::LANG_REGION.get(i)?;
            ((Some(a), None, Some(b)), v)
        }
        2 => {
            let (a, b, v) = *ls::LANG_SCRIPT.get(i)?;
            ((Some(a), Some(b), None), v)
        }
        3 => {
            let (a, b, v) = *ls::SCRIPT_REGION.get(i)?;
            ((None, Some(a), Some(b)), v)
        }
        4 => {
            let (k, v) = *ls::SCRIPT_ONLY.get(i)?;
            ((None, Some(k), None), v)
        }
        _ => {
            let (k, v) = *ls::REGION_ONLY.get(i)?;
            ((None, None, Some(k)), v)
        }
    };
    let lang = match key.0 {
        Some(k) => Language::from_bytes(lang_text(k)?.as_bytes()).ok()?,
        None => Language::default(),
    };
    let script = match key.1 {
        Some(k) => Some(Script::from_bytes(script_text(k)?.as_bytes()).ok()?),
        None => None,
    };
    let region = match key.2 {
        Some(k) => Some(Region::from_bytes(region_text(k)?.as_bytes()).ok()?),
        None => None,
    };
    Some(Ask::Max {
        label: format!("{}[{}]", TABLES[t], i),
        table: TABLES[t],
        lang,
        script,
        region,
        expect: value_text(value)?,
    })
}

fn script_direction(text: &str) -> Option<&'static str> {
    use lib::verif_tables as lt;
    let v = crate::oracle::pack_kind(crate::oracle::Kind::Script, text) as u32;
    if lt::SCRIPTS_CHARACTER_DIRECTION_LTR.contains(&v) {
        Some("LTR")
    } else if lt::SCRIPTS_CHARACTER_DIRECTION_RTL.contains(&v) {
        Some("RTL")
    } else if lt::SCRIPTS_CHARACTER_DIRECTION_TTB.contains(&v) {
        Some("TTB")
    } else {
        None
    }
}

/// rows of LANG_REGION whose language is listed right-to-left: the identifiers whose direction
/// goes through the likely-subtags lookup (computed once)
fn rtl_region_rows() -> &'static Vec<usize> {
    static ROWS: std::sync::OnceLock<Vec<usize>> = std::sync::OnceLock::new();
    ROWS.get_or_init(|| {
        let rtl: HashSet<u64> = lib::verif_tables::LANGS_CHARACTER_DIRECTION_RTL.iter().copied().collect();
        (0..ls::LANG_REGION.len()).filter(|i| rtl.contains(&ls::LANG_REGION[*i].0)).collect()
    })
}

fn dir_ask(i: usize) -> Option<Ask> {
    let (l, r, v) = *ls::LANG_REGION.get(i)?;
    let (lt, rt) = (lang_text(l)?, region_text(r)?);
    let lang = Language::from_bytes(lt.as_bytes()).ok()?;
    let region = Region::from_bytes(rt.as_bytes()).ok()?;
    let st = script_text(v.1?)?;
    // lib.rs: a script-less identifier of a right-to-left language is LTR iff its likely script is
    // listed left-to-right, else RTL
    let expect = if script_direction(&st) == Some("LTR") { "LTR" } else { "RTL" };
    Some(Ask::Dir {
        label: format!("direction of {}-{}", lt, rt),
        li: lib::LanguageIdentifier::from_parts(lang, None, Some(region), &[]),
        expect: expect.to_string(),
    })
}

/// (round 17) the bare right-to-left-listed languages with the direction their likely script has:
/// a script-less, region-less identifier goes through the likely-subtags lookup too, and two
/// *different* languages with the same (absent) region and opposite directions are what a cache
/// keyed too narrowly confuses (seeded m67: `ar` answered with `pa`'s direction)
fn bare_rtl_langs() -> &'static Vec<(String, String)> {
    static ROWS: std::sync::OnceLock<Vec<(String, String)>> = std::sync::OnceLock::new();
    ROWS.get_or_init(|| {
        let mut v = vec![];
        for l in lib::verif_tables::LANGS_CHARACTER_DIRECTION_RTL.iter() {
            let Ok(i) = ls::LANG_ONLY.binary_search_by_key(l, |r| r.0) else { continue };
            let Some(lt) = lang_text(*l) else { continue };
            let Some(st) = ls::LANG_ONLY[i].1 .1.and_then(script_text) else { continue };
            let expect = if script_direction(&st) == Some("LTR") { "LTR" } else { "RTL" };
            v.push((lt, expect.to_string()));
        }
        v
    })
}

fn bare_dir_ask(lt: &str, expect: &str) -> Option<Ask> {
    let lang = Language::from_bytes(lt.as_bytes()).ok()?;
    Some(Ask::Dir {
        label: format!("direction of {}", lt),
        li: lib::LanguageIdentifier::from_parts(lang, None, None, &[]),
        expect: expect.to_string(),
    })
}

/// The workload of one run: what each caller thread asks for, in order.
#[derive(Clone, Debug)]
pub struct Workload {
    threads: Vec<Vec<Ask>>,
}

pub fn workload(wseed: u64) -> Workload {
    let mut r = Rng::new(wseed ^ 0x57c0_4e11);
    let n_threads = 2 + (r.below(3) as usize); // 2..=4
    // the hot set: what all threads keep asking for. Small caches collide on few keys, so: a
    // handful to a dozen rows of LANG_ONLY (the table every lookup of a language falls back to),
    // a pair of neighbouring rows of a two-key table that share their first key, a few rows of
    // the other tables, one or two direction queries of one right-to-left language
    let mut hot: Vec<Ask> = vec![];
    let n_lang = 3 + r.below(10) as usize;
    for _ in 0..n_lang {
        let n = table_len(0);
        if n > 0 {
            if let Some(a) = row(0, r.below(n as u64) as usize) {
                hot.push(a);
            }
        }
    }
    let pair_table = 1 + r.below(2) as usize;
    let n = table_len(pair_table);
    if n > 1 {
        let mut at = r.below(n as u64 - 1) as usize;
        for _ in 0..n {
            let same = match pair_table {
                1 => ls::LANG_REGION[at].0 == ls::LANG_REGION[at + 1].0,
                _ => ls::LANG_SCRIPT[at].0 == ls::LANG_SCRIPT[at + 1].0,
            };
            if same {
                break;
            }
            at = (at + 1) % (n - 1);
        }
        for i in [at, at + 1] {
            if let Some(a) = row(pair_table, i) {
                hot.push(a);
            }
        }
    }
    for _ in 0..(r.below(4) as usize) {
        let t = 1 + r.below(5) as usize;
        let n = table_len(t);
        if n > 0 {
            if let Some(a) = row(t, r.below(n as u64) as usize) {
                hot.push(a);
            }
        }
    }
    let rows = rtl_region_rows();
    if !rows.is_empty() && r.below(3) > 0 {
        let start = r.below(rows.len() as u64) as usize;
        // two rows of one language whose directions differ, if there are such from here on
        let mut chosen = vec![rows[start]];
        for d in 0..rows.len().min(64) {
            let (i, j) = (rows[(start + d) % rows.len()], rows[(start + d + 1) % rows.len()]);
            if let (Some(Ask::Dir { expect: a, .. }), Some(Ask::Dir { expect: b, .. })) = (dir_ask(i), dir_ask(j)) {
                if ls::LANG_REGION[i].0 == ls::LANG_REGION[j].0 && a != b {
                    chosen = vec![i, j];
                    break;
                }
            }
        }
        for i in chosen {
            if let Some(a) = dir_ask(i) {
                hot.push(a);
            }
        }
    }
    // (round 17) two or three bare right-to-left-listed languages, of both directions if possible
    let bare = bare_rtl_langs();
    if bare.len() > 1 && r.below(2) > 0 {
        let start = r.below(bare.len() as u64) as usize;
        let first = &bare[start];
        let mut picked = vec![first];
        if let Some(other) = (1..bare.len()).map(|d| &bare[(start + d) % bare.len()]).find(|b| b.1 != first.1) {
            picked.push(other);
        }
        if r.below(2) > 0 {
            picked.push(&bare[(start + 1) % bare.len()]);
        }
        for (lt, expect) in picked {
            if let Some(a) = bare_dir_ask(lt, expect) {
                hot.push(a);
            }
        }
    }
    let ops = 6 + r.below(30) as usize;
    let mut threads = vec![];
    for _ in 0..n_threads {
        let mut seq = vec![];
        for _ in 0..ops {
            if hot.is_empty() {
                break;
            }
            seq.push(hot[r.below(hot.len() as u64) as usize].clone());
        }
        threads.push(seq);
    }
    Workload { threads }
}

// ---------------------------------------------------------------------------------------------
// scheduler
// ---------------------------------------------------------------------------------------------

#[derive(Clone, Copy, Debug, PartialEq)]
pub enum Policy {
    /// explicit deviations only (replay, minimisation)
    Explicit,
    Uniform,
    /// switch away from the running task with probability permille/1000
    Sticky(u32),
    /// random priorities, the running task demoted at a few random steps
    Priority,
}

#[derive(Default, Debug, Clone)]
pub struct SchedLog {
    /// every step: the task chosen
    pub picks: Vec<u32>,
    /// steps at which the choice was not the no-preemption default: (step, task)
    pub deviations: Vec<(u32, u32)>,
    pub choice_points: u64,
    pub switches: u64,
    pub diverged: bool,
}

struct ConcSched {
    started: bool,
    rng: Rng,
    policy: Policy,
    explicit: BTreeMap<u32, u32>,
    prio: BTreeMap<u32, u64>,
    change_points: BTreeSet<u32>,
    step: u32,
    log: Arc<Mutex<SchedLog>>,
    /// the task picked last and for how many steps in a row
    streak: (u32, u32),
}

/// A caller that has run this many steps in a row while another one could run is taken off the
/// CPU by the default choice too: every real scheduler is fair in the long run, and a correct
/// busy-wait (a spin lock without `spin_loop()`, a retry loop on a compare-and-swap) would
/// otherwise spin to the step bound under the no-preemption default and be reported as a caller
/// that never gets an answer.
const FAIRNESS_STREAK: u32 = 2_000;

impl shuttle::scheduler::Scheduler for ConcSched {
    fn new_execution(&mut self) -> Option<shuttle::scheduler::Schedule> {
        if self.started {
            None
        } else {
            self.started = true;
            Some(shuttle::scheduler::Schedule::new(0))
        }
    }
    fn next_task(
        &mut self,
        runnable: &[&shuttle::scheduler::Task],
        current: Option<shuttle::scheduler::TaskId>,
        is_yielding: bool,
    ) -> Option<shuttle::scheduler::TaskId> {
        let mut ids: Vec<u32> = runnable.iter().map(|t| usize::from(t.id()) as u32).collect();
        ids.sort_unstable();
        let cur = current.map(|c| usize::from(c) as u32);
        // the default: keep the running task; if it cannot run (or yields), the lowest id
        let starving_others = matches!(cur, Some(c) if self.streak.0 == c && self.streak.1 >= FAIRNESS_STREAK);
        let default = match cur {
            Some(c) if ids.contains(&c) && !((is_yielding || starving_others) && ids.len() > 1) => c,
            _ => *ids.iter().find(|i| Some(**i) != cur || ids.len() == 1).unwrap_or(&ids[0]),
        };
        let step = self.step;
        self.step += 1;
        let pick = if ids.len() == 1 {
            ids[0]
        } else {
            match self.policy {
                Policy::Explicit => match self.explicit.get(&step) {
                    Some(t) if ids.contains(t) => *t,
                    Some(_) => {
                        self.log.lock().unwrap().diverged = true;
                        default
                    }
                    None => default,
                },
                Policy::Uniform => ids[self.rng.below(ids.len() as u64) as usize],
                Policy::Sticky(pm) => {
                    if ids.contains(&default) && self.rng.below(1000) >= pm as u64 {
                        default
                    } else {
                        ids[self.rng.below(ids.len() as u64) as usize]
                    }
                }
                Policy::Priority => {
                    for i in &ids {
                        if !self.prio.contains_key(i) {
                            let p = 1000 + self.rng.below(1_000_000);
                            self.prio.insert(*i, p);
                        }
                    }
                    if self.change_points.contains(&step) || starving_others {
                        if let Some(c) = cur {
                            // demoted below everything
                            self.prio.insert(c, self.rng.below(1000));
                        }
                    }
                    *ids.iter().max_by_key(|i| self.prio[*i]).unwrap()
                }
            }
        };
        self.streak = if self.streak.0 == pick { (pick, self.streak.1 + 1) } else { (pick, 1) };
        {
            let mut l = self.log.lock().unwrap();
            l.picks.push(pick);
            if ids.len() > 1 {
                l.choice_points += 1;
                if pick != default {
                    l.deviations.push((step, pick));
                }
            }
            if cur.is_some() && cur != Some(pick) {
                l.switches += 1;
            }
        }
        runnable.iter().find(|t| usize::from(t.id()) as u32 == pick).map(|t| t.id())
    }
    fn next_u64(&mut self) -> u64 {
        self.rng.next_u64()
    }
}

fn config() -> shuttle::Config {
    let mut cfg = shuttle::Config::new();
    cfg.stack_size = 1 << 20;
    cfg.failure_persistence = shuttle::FailurePersistence::None;
    cfg.max_steps = shuttle::MaxSteps::FailAfter(2_000_000);
    cfg.silence_warnings = true;
    cfg
}

/// What one run produced.
#[derive(Debug, Clone, Default)]
pub struct Outcome {
    pub answers: u64,
    /// (label of the row asked for, table, detail)
    pub wrong: Vec<(String, String, String)>,
    pub panic: Option<String>,
    pub log: SchedLog,
}

fn answer(a: &Ask) -> Result<(), String> {
    match a {
        Ask::Max { lang, script, region, expect, .. } => {
            let got: Option<Text> = ls::maximize(*lang, *script, *region)
                .map(|(l, s, r)| (l.as_str().to_string(), s.map(|x| x.as_str().to_string()), r.map(|x| x.as_str().to_string())));
            if got.as_ref() == Some(expect) {
                Ok(())
            } else {
                Err(format!("maximize answered {:?} where the row stores {:?}", got, expect))
            }
        }
        Ask::Dir { li, expect, .. } => {
            let got = format!("{:?}", li.character_direction());
            if got == *expect {
                Ok(())
            } else {
                Err(format!("character_direction() is {} where the tables say {}", got, expect))
            }
        }
    }
}

/// Runs `body` as the main task of one execution of the thread engine under the scheduler
/// described by (policy, sched_seed, explicit); returns the schedule log and the panic, if any.
pub fn run_under(policy: Policy, sched_seed: u64, explicit: &[(u32, u32)], body: impl FnOnce() + Send + 'static) -> (SchedLog, Option<String>) {
    let log = Arc::new(Mutex::new(SchedLog::default()));
    let mut rng = Rng::new(sched_seed ^ 0x5c4e_d01e);
    let mut change_points = BTreeSet::new();
    if policy == Policy::Priority {
        let horizon = [64u64, 512, 4096][rng.below(3) as usize];
        for _ in 0..(1 + rng.below(4)) {
            change_points.insert(rng.below(horizon) as u32);
        }
    }
    let sched = ConcSched {
        started: false,
        rng,
        policy,
        explicit: explicit.iter().copied().collect(),
        prio: BTreeMap::new(),
        change_points,
        step: 0,
        log: log.clone(),
        streak: (u32::MAX, 0),
    };
    crate::world::PANIC_INFO.with(|p| *p.borrow_mut() = None);
    let was_in_sim = crate::world::IN_SIM.with(|f| f.replace(true));
    let r = std::panic::catch_unwind(std::panic::AssertUnwindSafe(move || {
        let runner = shuttle::Runner::new(sched, config());
        // (the engine wants a body it could run again; this scheduler offers one execution)
        let cell = Mutex::new(Some(body));
        runner.run(move || {
            if let Some(f) = cell.lock().unwrap().take() {
                f()
            }
        });
    }));
    crate::world::IN_SIM.with(|f| f.set(was_in_sim));
    let panic = match r {
        Ok(()) => None,
        Err(p) => Some(
            crate::world::PANIC_INFO
                .with(|x| x.borrow_mut().take())
                .or_else(|| p.downcast_ref::<String>().cloned())
                .or_else(|| p.downcast_ref::<&str>().map(|s| s.to_string()))
                .unwrap_or_else(|| "<panic>".into()),
        ),
    };
    let log = log.lock().unwrap().clone();
    (log, panic)
}

/// One execution of the workload under the scheduler described by (policy, sched_seed, explicit).
pub fn execute(w: &Workload, policy: Policy, sched_seed: u64, explicit: &[(u32, u32)]) -> Outcome {
    let wrong: Arc<Mutex<Vec<(String, String, String)>>> = Arc::new(Mutex::new(vec![]));
    let answers = Arc::new(std::sync::atomic::AtomicU64::new(0));
    let (w2, wrong2, answers2) = (w.clone(), wrong.clone(), answers.clone());
    let (log, panic) = run_under(policy, sched_seed, explicit, move || {
        let mut hs = vec![];
        for (ti, seq) in w2.threads.iter().cloned().enumerate() {
            let (wrong, answers) = (wrong2.clone(), answers2.clone());
            hs.push(shuttle::thread::spawn(move || {
                for (k, a) in seq.iter().enumerate() {
                    answers.fetch_add(1, std::sync::atomic::Ordering::Relaxed);
                    if let Err(e) = answer(a) {
                        let table = match a {
                            Ask::Max { table, .. } => table.to_string(),
                            Ask::Dir { .. } => "LANGS_CHARACTER_DIRECTION_RTL".to_string(),
                        };
                        wrong.lock().unwrap().push((a.label().to_string(), table, format!("caller thread {} call {}: {}", ti, k, e)));
                    }
                }
            }));
        }
        for h in hs {
            let _ = h.join();
        }
    });
    let wrong = wrong.lock().unwrap().clone();
    Outcome {
        answers: answers.load(std::sync::atomic::Ordering::Relaxed),
        wrong,
        panic,
        log,
    }
}

fn encode(o: &Outcome) -> Vec<u8> {
    let j = json!({
        "answers": o.answers,
        "wrong": o.wrong,
        "panic": o.panic,
        "picks": o.log.picks,
        "deviations": o.log.deviations,
        "choice_points": o.log.choice_points,
        "switches": o.log.switches,
        "diverged": o.log.diverged,
    });
    serde_json::to_vec(&j).unwrap_or_default()
}

fn decode(b: &[u8]) -> Option<Outcome> {
    let j: serde_json::Value = serde_json::from_slice(b).ok()?;
    Some(Outcome {
        answers: j["answers"].as_u64()?,
        wrong: serde_json::from_value(j["wrong"].clone()).ok()?,
        panic: j["panic"].as_str().map(|s| s.to_string()),
        log: SchedLog {
            picks: serde_json::from_value(j["picks"].clone()).ok()?,
            deviations: serde_json::from_value(j["deviations"].clone()).ok()?,
            choice_points: j["choice_points"].as_u64()?,
            switches: j["switches"].as_u64()?,
            diverged: j["diverged"].as_bool()?,
        },
    })
}

/// `execute` in a forked child when the library keeps process-wide state, else in this process.
pub fn execute_isolated(w: &Workload, policy: Policy, sched_seed: u64, explicit: &[(u32, u32)], fork: bool) -> Outcome {
    if !fork {
        return execute(w, policy, sched_seed, explicit);
    }
    match crate::isolate::fork_call(|| encode(&execute(w, policy, sched_seed, explicit))) {
        Ok(bytes) => decode(&bytes).unwrap_or_else(|| Outcome {
            panic: Some("the child process of a concurrent-callers run died without a result (abort, stack overflow or time limit)".into()),
            ..Default::default()
        }),
        Err(e) => Outcome {
            panic: Some(format!("the child process of a concurrent-callers run: {}", e)),
            ..Default::default()
        },
    }
}

/// Does the library declare state that outlives a call (statics with interior mutability,
/// thread locals, lazies)? Then every run gets a process of its own.
pub fn library_process_state() -> Option<String> {
    fn walk(dir: &std::path::Path, out: &mut Vec<std::path::PathBuf>) {
        if let Ok(rd) = std::fs::read_dir(dir) {
            for e in rd.flatten() {
                let p = e.path();
                if p.is_dir() {
                    if p.file_name().map(|n| n == "bin").unwrap_or(false) {
                        continue;
                    }
                    walk(&p, out);
                } else if p.extension().map(|x| x == "rs").unwrap_or(false) {
                    out.push(p);
                }
            }
        }
    }
    let mut files = vec![];
    walk(std::path::Path::new(crate::REPO_CRATE).join("src").as_path(), &mut files);
    files.sort();
    for f in files {
        if f.file_name().map(|n| n == "tables.rs" || n == "layout_table.rs").unwrap_or(false) {
            // the generated tables: plain integers (and 10 000 lines of them)
            if let Ok(t) = std::fs::read_to_string(&f) {
                if !t.contains("Atomic") && !t.contains("Mutex") && !t.contains("Cell") && !t.contains("Lock") && !t.contains("thread_local") && !t.contains("lazy") {
                    continue;
                }
            }
        }
        if let Ok(t) = std::fs::read_to_string(&f) {
            if let Some(why) = crate::isolate::declares_process_state(&t) {
                return Some(format!("{}: {}", f.display(), why));
            }
        }
    }
    None
}

fn policy_of(r: &mut Rng) -> Policy {
    match r.below(8) {
        0 | 1 | 2 => Policy::Uniform,
        3 => Policy::Sticky(20),
        4 => Policy::Sticky(100),
        5 => Policy::Sticky(300),
        _ => Policy::Priority,
    }
}

pub fn policy_name(p: Policy) -> String {
    match p {
        Policy::Explicit => "explicit".into(),
        Policy::Uniform => "uniform".into(),
        Policy::Sticky(pm) => format!("sticky-{}", pm),
        Policy::Priority => "priority".into(),
    }
}

pub fn run_params(seed: u64, i: u64) -> (u64, Policy, u64) {
    let mut r = Rng::new(crate::rng::run_seed(seed, 0x57c0_0007, i));
    // several schedules per workload: the workload changes every 4th run
    let wseed = crate::rng::run_seed(seed, 0x57c0_0001, i / 4);
    let policy = policy_of(&mut r);
    (wseed, policy, r.next_u64())
}

#[derive(Default)]
pub struct Report {
    pub runs: u64,
    pub requested: u64,
    pub forked: bool,
    pub process_state: Option<String>,
    pub answers: u64,
    pub steps: u64,
    pub choice_points: u64,
    pub switches: u64,
    pub deviations: u64,
    pub distinct_interleavings: u64,
    pub distinct_workloads: u64,
    pub max_threads: u64,
    pub failing_runs: u64,
    pub by_policy: BTreeMap<String, u64>,
    /// first failing run of every violation class: (run index, violation)
    pub failing: Vec<(u64, Violation)>,
    pub determinism_rechecked: u64,
    pub determinism_mismatches: u64,
    pub sample: Option<serde_json::Value>,
}

pub fn violation_of(o: &Outcome) -> Option<Violation> {
    if let Some((label, table, detail)) = o.wrong.first() {
        return Some(Violation {
            class: "S7".into(),
            table: table.clone(),
            signature: format!("S7:{}:concurrent-callers", table),
            detail: format!(
                "with several threads calling the lookup at once, {} is answered wrongly under a legal interleaving ({}; {} wrong answers of {} in this run): what a caller gets is not determined by the bundled tables",
                label,
                detail,
                o.wrong.len(),
                o.answers
            ),
        });
    }
    if let Some(p) = &o.panic {
        let mut f = Fnv::default();
        f.str(&mask_numbers(p));
        return Some(Violation {
            class: "S7".into(),
            table: "-".into(),
            signature: format!("S7:panic:{:08x}", f.0 as u32),
            detail: format!("with several threads calling the lookup at once, a caller does not get an answer under a legal interleaving (panic, deadlock or no termination): {}", p),
        });
    }
    None
}

pub fn run_batch(seed: u64, runs: u64, threads: u64, budget: std::time::Duration) -> Report {
    let process_state = library_process_state();
    let fork = process_state.is_some();
    let t0 = std::time::Instant::now();
    let next = Arc::new(std::sync::atomic::AtomicU64::new(0));
    let threads = threads.max(1);
    struct Part {
        runs: u64,
        answers: u64,
        steps: u64,
        choice_points: u64,
        switches: u64,
        deviations: u64,
        inter: HashSet<u64>,
        wl: HashSet<u64>,
        max_threads: u64,
        failing_runs: u64,
        by_policy: BTreeMap<String, u64>,
        failing: Vec<(u64, Violation)>,
        samples: Vec<(u64, u64)>,
    }
    let mut hs = vec![];
    for _ in 0..threads {
        let next = next.clone();
        hs.push(
            std::thread::Builder::new()
                .stack_size(16 << 20)
                .spawn(move || {
                    let mut p = Part {
                        runs: 0,
                        answers: 0,
                        steps: 0,
                        choice_points: 0,
                        switches: 0,
                        deviations: 0,
                        inter: HashSet::new(),
                        wl: HashSet::new(),
                        max_threads: 0,
                        failing_runs: 0,
                        by_policy: BTreeMap::new(),
                        failing: vec![],
                        samples: vec![],
                    };
                    loop {
                        let i = next.fetch_add(1, std::sync::atomic::Ordering::Relaxed);
                        if i >= runs || t0.elapsed() > budget {
                            break;
                        }
                        let (wseed, policy, sseed) = run_params(seed, i);
                        let w = workload(wseed);
                        let o = execute_isolated(&w, policy, sseed, &[], fork);
                        p.runs += 1;
                        p.answers += o.answers;
                        p.steps += o.log.picks.len() as u64;
                        p.choice_points += o.log.choice_points;
                        p.switches += o.log.switches;
                        p.deviations += o.log.deviations.len() as u64;
                        p.max_threads = p.max_threads.max(w.threads.len() as u64);
                        *p.by_policy.entry(policy_name(policy)).or_default() += 1;
                        let mut f = Fnv::default();
                        f.u64(wseed);
                        for x in &o.log.picks {
                            f.u64(*x as u64);
                        }
                        p.inter.insert(f.0);
                        p.wl.insert(wseed);
                        if i % 64 == 0 {
                            p.samples.push((i, outcome_digest(&o)));
                        }
                        if let Some(v) = violation_of(&o) {
                            p.failing_runs += 1;
                            if !p.failing.iter().any(|(_, x)| x.signature == v.signature) {
                                p.failing.push((i, v));
                            }
                        }
                    }
                    p
                })
                .unwrap(),
        );
    }
    let mut rep = Report {
        requested: runs,
        forked: fork,
        process_state,
        ..Default::default()
    };
    let mut inter: HashSet<u64> = HashSet::new();
    let mut wl: HashSet<u64> = HashSet::new();
    let mut samples = vec![];
    for h in hs {
        let p = h.join().unwrap_or_else(|_| crate::harness_error("a concurrent-callers worker panicked"));
        rep.runs += p.runs;
        rep.answers += p.answers;
        rep.steps += p.steps;
        rep.choice_points += p.choice_points;
        rep.switches += p.switches;
        rep.deviations += p.deviations;
        rep.max_threads = rep.max_threads.max(p.max_threads);
        rep.failing_runs += p.failing_runs;
        for (k, v) in p.by_policy {
            *rep.by_policy.entry(k).or_default() += v;
        }
        inter.extend(p.inter);
        wl.extend(p.wl);
        samples.extend(p.samples);
        for (i, v) in p.failing {
            match rep.failing.iter_mut().find(|(_, x)| x.signature == v.signature) {
                Some(e) => {
                    if i < e.0 {
                        *e = (i, v);
                    }
                }
                None => rep.failing.push((i, v)),
            }
        }
    }
    rep.failing.sort_by_key(|f| f.0);
    rep.distinct_interleavings = inter.len() as u64;
    rep.distinct_workloads = wl.len() as u64;
    // determinism: re-execute the sampled runs, the outcome (schedule, answers) must be identical
    for (i, d) in samples.iter().take(48) {
        let (wseed, policy, sseed) = run_params(seed, *i);
        let o = execute_isolated(&workload(wseed), policy, sseed, &[], fork);
        rep.determinism_rechecked += 1;
        if outcome_digest(&o) != *d {
            rep.determinism_mismatches += 1;
        }
    }
    {
        let (wseed, policy, sseed) = run_params(seed, 0);
        let w = workload(wseed);
        let o = execute_isolated(&w, policy, sseed, &[], fork);
        rep.sample = Some(json!({
            "kind": "concurrent callers (S7)",
            "workload_seed": format!("{:016x}", wseed),
            "scheduler_policy": policy_name(policy),
            "caller_threads": w.threads.iter().map(|t| t.iter().map(|a| a.label().to_string()).collect::<Vec<_>>()).collect::<Vec<_>>(),
            "tasks_scheduled_in_order": o.log.picks.iter().take(64).collect::<Vec<_>>(),
            "answers": o.answers,
            "wrong": o.wrong.len(),
        }));
    }
    rep
}

fn mask_numbers(s: &str) -> String {
    let mut out = String::new();
    let mut in_num = false;
    for c in s.chars() {
        if c.is_ascii_digit() {
            if !in_num {
                out.push('#');
            }
            in_num = true;
        } else {
            in_num = false;
            out.push(c);
        }
    }
    out
}

pub fn outcome_digest(o: &Outcome) -> u64 {
    let mut f = Fnv::default();
    f.u64(o.answers);
    for x in &o.log.picks {
        f.u64(*x as u64);
    }
    for (a, b, c) in &o.wrong {
        f.str(a);
        f.str(b);
        f.str(c);
    }
    f.str(o.panic.as_deref().unwrap_or(""));
    f.0
}

pub fn debug_run(seed: u64, run: u64) {
    let fork = library_process_state().is_some();
    let (wseed, policy, sseed) = run_params(seed, run);
    let w = workload(wseed);
    let o = execute_isolated(&w, policy, sseed, &[], fork);
    println!("seeded ({}): answers={} wrong={:?} panic={:?} steps={} deviations={}", policy_name(policy), o.answers, o.wrong.first(), o.panic, o.log.picks.len(), o.log.deviations.len());
    let o2 = execute_isolated(&w, policy, sseed, &[], fork);
    println!("seeded again: wrong={:?} same picks={}", o2.wrong.first(), o.log.picks == o2.log.picks);
    let e = execute_isolated(&w, Policy::Explicit, 0, &o.log.deviations, fork);
    println!("explicit: answers={} wrong={:?} panic={:?} steps={} diverged={} same picks={}", e.answers, e.wrong.first(), e.panic, e.log.picks.len(), e.log.diverged, o.log.picks == e.log.picks);
    if o.log.picks != e.log.picks {
        let at = o.log.picks.iter().zip(e.log.picks.iter()).position(|(a, b)| a != b);
        println!("first difference at step {:?}: seeded {:?} explicit {:?}", at, at.map(|i| &o.log.picks[i.saturating_sub(3)..(i + 3).min(o.log.picks.len())]), at.map(|i| &e.log.picks[i.saturating_sub(3)..(i + 3).min(e.log.picks.len())]));
        println!("deviations near: {:?}", o.log.deviations.iter().filter(|(s, _)| at.map(|a| (*s as i64 - a as i64).abs() < 4).unwrap_or(false)).collect::<Vec<_>>());
    }
}

/// Minimise a failing run: first the schedule (drop deviations from the no-preemption default one
/// at a time while a violation of the same signature persists), then the workload (drop calls).
pub struct Minimised {
    pub workload: Workload,
    pub deviations: Vec<(u32, u32)>,
    pub outcome: Outcome,
    pub tests: u64,
    pub deviations_before: usize,
    pub calls_before: usize,
}

pub fn minimise(seed: u64, run: u64, fork: bool, signature: &str) -> Option<Minimised> {
    let (wseed, policy, sseed) = run_params(seed, run);
    let mut w = workload(wseed);
    let o = execute_isolated(&w, policy, sseed, &[], fork);
    let v = violation_of(&o)?;
    if v.signature != signature {
        return None;
    }
    let mut dev = o.log.deviations.clone();
    let deviations_before = dev.len();
    let calls_before: usize = w.threads.iter().map(|t| t.len()).sum();
    let mut tests = 0u64;
    let fails = |w: &Workload, dev: &[(u32, u32)], tests: &mut u64| -> Option<Outcome> {
        *tests += 1;
        let o = execute_isolated(w, Policy::Explicit, 0, dev, fork);
        match violation_of(&o) {
            Some(v) if v.signature == signature => Some(o),
            _ => None,
        }
    };
    // the explicit form of the found schedule must fail as well, else keep the seeded form
    let mut best = fails(&w, &dev, &mut tests)?;
    // ddmin-lite over the deviations: chunks, then singles
    let mut chunk = (dev.len() / 2).max(1);
    while !dev.is_empty() && tests < 600 {
        let mut progressed = false;
        let mut i = 0;
        while i < dev.len() && tests < 600 {
            let mut cand = dev.clone();
            let end = (i + chunk).min(cand.len());
            cand.drain(i..end);
            if let Some(o) = fails(&w, &cand, &mut tests) {
                dev = cand;
                best = o;
                progressed = true;
            } else {
                i += chunk;
            }
        }
        if chunk == 1 && !progressed {
            break;
        }
        chunk = (chunk / 2).max(1);
    }
    // drop calls of the workload (from the back of every thread, then singly) while it still fails;
    // the deviations refer to steps, which move when calls go away, so only calls whose removal
    // keeps the failure under the *same* deviation list are dropped
    let mut progress = true;
    while progress && tests < 1200 {
        progress = false;
        for t in 0..w.threads.len() {
            let mut k = w.threads[t].len();
            while k > 0 && tests < 1200 {
                k -= 1;
                let mut cand = w.clone();
                cand.threads[t].remove(k);
                if let Some(o) = fails(&cand, &dev, &mut tests) {
                    w = cand;
                    best = o;
                    progress = true;
                }
            }
        }
    }
    // (a caller left without calls stays in the workload: removing it would renumber the tasks
    // the deviations name)
    while w.threads.last().map(|t| t.is_empty()).unwrap_or(false) {
        let mut cand = w.clone();
        cand.threads.pop();
        match fails(&cand, &dev, &mut tests) {
            Some(o) => {
                w = cand;
                best = o;
            }
            None => break,
        }
    }
    if let Some(o) = fails(&w, &dev, &mut tests) {
        best = o;
    } else {
        return None;
    }
    Some(Minimised {
        workload: w,
        deviations: dev,
        outcome: best,
        tests,
        deviations_before,
        calls_before,
    })
}

// ---------------------------------------------------------------------------------------------
// replay file form
// ---------------------------------------------------------------------------------------------

fn ask_json(a: &Ask) -> serde_json::Value {
    match a {
        Ask::Max { label, lang, script, region, .. } => json!({
            "maximize": [lang.as_str(), script.map(|s| s.as_str().to_string()), region.map(|r| r.as_str().to_string())],
            "row": label,
        }),
        Ask::Dir { label, li, .. } => json!({ "character_direction": li.to_string(), "what": label }),
    }
}

/// the call named in a replay file, with the expectation recomputed from the tables as they are now
fn ask_from_json(j: &serde_json::Value) -> Option<Ask> {
    if let Some(label) = j["row"].as_str() {
        let (t, rest) = label.split_once('[')?;
        let i: usize = rest.trim_end_matches(']').parse().ok()?;
        let t = TABLES.iter().position(|x| *x == t)?;
        let a = row(t, i)?;
        // the row index must still name the same key
        if let (Ask::Max { lang, script, region, .. }, Some(m)) = (&a, j["maximize"].as_array()) {
            let same = m.first().and_then(|x| x.as_str()) == Some(lang.as_str())
                && m.get(1).and_then(|x| x.as_str()) == script.map(|s| s.as_str().to_string()).as_deref()
                && m.get(2).and_then(|x| x.as_str()) == region.map(|r| r.as_str().to_string()).as_deref();
            if !same {
                return None;
            }
        }
        return Some(a);
    }
    if let Some(id) = j["character_direction"].as_str() {
        let rows = rtl_region_rows();
        for i in rows {
            if let Some(a) = dir_ask(*i) {
                if let Ask::Dir { li, .. } = &a {
                    if li.to_string() == id {
                        return Some(a);
                    }
                }
            }
        }
        // (round 17) a bare right-to-left-listed language
        for (lt, expect) in bare_rtl_langs() {
            if lt == id {
                return bare_dir_ask(lt, expect);
            }
        }
    }
    None
}

pub fn replay_json(m: &Minimised) -> serde_json::Value {
    json!({
        "caller_threads": m.workload.threads.iter().map(|t| t.iter().map(ask_json).collect::<Vec<_>>()).collect::<Vec<_>>(),
        "schedule": {
            "note": "steps at which the scheduler deviates from the no-preemption default (keep the running task; when it blocks or ends, the runnable task with the lowest id): [step, task]; task 0 is the main thread that spawns the callers, task k the k-th caller",
            "deviations": m.deviations,
            "tasks_scheduled_in_order": m.outcome.log.picks,
        },
        "minimisation": {
            "replays_run": m.tests,
            "deviations_before": m.deviations_before,
            "deviations_after": m.deviations.len(),
            "calls_before": m.calls_before,
            "calls_after": m.workload.threads.iter().map(|t| t.len()).sum::<usize>(),
        },
    })
}

/// Re-execute a replay file's workload and schedule (in a fresh child when the library keeps
/// process state); returns the violations found.
pub fn replay(j: &serde_json::Value) -> Result<Vec<Violation>, String> {
    let threads = j["conc"]["caller_threads"].as_array().ok_or("replay file: no caller_threads")?;
    let mut w = Workload { threads: vec![] };
    for t in threads {
        let mut seq = vec![];
        for a in t.as_array().ok_or("replay file: bad thread")? {
            match ask_from_json(a) {
                Some(x) => seq.push(x),
                // the row is gone or names another key now: the tables changed under the replay
                None => return Err(format!("replay file names a call that the current tables do not have: {}", a)),
            }
        }
        w.threads.push(seq);
    }
    let dev: Vec<(u32, u32)> = serde_json::from_value(j["conc"]["schedule"]["deviations"].clone()).map_err(|e| format!("replay file: {}", e))?;
    let fork = library_process_state().is_some();
    let o = execute_isolated(&w, Policy::Explicit, 0, &dev, fork);
    Ok(violation_of(&o).into_iter().collect())
}

#[cfg(test)]
mod tests {
    use super::*;
    use shuttle::sync::atomic::{AtomicU64, AtomicUsize, Ordering};

    /// the shape of seeded `m42`: a slot whose key and value are published by two separate stores
    fn torn_pair_program(bad: Arc<std::sync::atomic::AtomicBool>) -> impl FnOnce() + Send + 'static {
        move || {
            let key = Arc::new(AtomicU64::new(0));
            let val = Arc::new(AtomicUsize::new(0));
            let mut hs = vec![];
            for me in 1..=2u64 {
                let (key, val, bad) = (key.clone(), val.clone(), bad.clone());
                hs.push(shuttle::thread::spawn(move || {
                    for _ in 0..3 {
                        if key.load(Ordering::Acquire) == me {
                            if val.load(Ordering::Relaxed) != me as usize * 10 {
                                bad.store(true, std::sync::atomic::Ordering::SeqCst);
                            }
                        } else {
                            val.store(me as usize * 10, Ordering::Relaxed);
                            key.store(me, Ordering::Release);
                        }
                    }
                }));
            }
            for h in hs {
                h.join().unwrap();
            }
        }
    }

    #[test]
    fn the_scheduler_finds_a_torn_pair_and_the_explicit_schedule_reproduces_it() {
        // never under the no-preemption default
        let bad = Arc::new(std::sync::atomic::AtomicBool::new(false));
        let (log, p) = run_under(Policy::Explicit, 0, &[], torn_pair_program(bad.clone()));
        assert!(p.is_none());
        assert!(!bad.load(std::sync::atomic::Ordering::SeqCst));
        assert!(log.deviations.is_empty());
        // found by the seeded search within a few hundred schedules
        let mut found = None;
        for seed in 0..400u64 {
            let bad = Arc::new(std::sync::atomic::AtomicBool::new(false));
            let policy = [Policy::Uniform, Policy::Sticky(100), Policy::Priority][(seed % 3) as usize];
            let (log, p) = run_under(policy, seed, &[], torn_pair_program(bad.clone()));
            assert!(p.is_none());
            if bad.load(std::sync::atomic::Ordering::SeqCst) {
                found = Some((seed, policy, log));
                break;
            }
        }
        let (seed, policy, log) = found.expect("a torn pair within 400 seeded schedules");
        // the same seed gives the same schedule
        let bad2 = Arc::new(std::sync::atomic::AtomicBool::new(false));
        let (log2, _) = run_under(policy, seed, &[], torn_pair_program(bad2.clone()));
        assert_eq!(log.picks, log2.picks);
        assert!(bad2.load(std::sync::atomic::Ordering::SeqCst));
        // and so does its explicit form (the deviations alone)
        let bad3 = Arc::new(std::sync::atomic::AtomicBool::new(false));
        let (log3, _) = run_under(Policy::Explicit, 0, &log.deviations, torn_pair_program(bad3.clone()));
        assert_eq!(log.picks, log3.picks);
        assert!(!log3.diverged);
        assert!(bad3.load(std::sync::atomic::Ordering::SeqCst));
    }

    #[test]
    fn a_busy_wait_without_a_hint_is_not_starved_by_the_default_schedule() {
        let (log, p) = run_under(Policy::Explicit, 0, &[], || {
            let flag = Arc::new(AtomicU64::new(0));
            let f2 = flag.clone();
            // the waiter is spawned first and runs first under the default choice
            let waiter = shuttle::thread::spawn(move || while f2.load(Ordering::Acquire) == 0 {});
            let setter = shuttle::thread::spawn(move || flag.store(1, Ordering::Release));
            waiter.join().unwrap();
            setter.join().unwrap();
        });
        assert!(p.is_none(), "{:?}", p);
        assert!(log.picks.len() < 3 * FAIRNESS_STREAK as usize);
    }

    #[test]
    fn a_deadlock_between_callers_is_reported_not_hung() {
        let (_log, p) = run_under(Policy::Explicit, 0, &[(3, 2)], || {
            let a = Arc::new(shuttle::sync::Mutex::new(0));
            let b = Arc::new(shuttle::sync::Mutex::new(0));
            let (a2, b2) = (a.clone(), b.clone());
            let h = shuttle::thread::spawn(move || {
                let _x = a2.lock().unwrap();
                shuttle::thread::yield_now();
                let _y = b2.lock().unwrap();
            });
            let h2 = shuttle::thread::spawn(move || {
                let _y = b.lock().unwrap();
                shuttle::thread::yield_now();
                let _x = a.lock().unwrap();
            });
            let _ = h.join();
            let _ = h2.join();
        });
        // either this schedule deadlocks (reported as a panic of the execution) or it completes;
        // what must not happen is a hang of the harness — and some schedule does deadlock
        let _ = p;
        let mut deadlocked = false;
        for seed in 0..200u64 {
            let (_l, p) = run_under(Policy::Uniform, seed, &[], || {
                let a = Arc::new(shuttle::sync::Mutex::new(0));
                let b = Arc::new(shuttle::sync::Mutex::new(0));
                let (a2, b2) = (a.clone(), b.clone());
                let h = shuttle::thread::spawn(move || {
                    let _x = a2.lock().unwrap();
                    let _y = b2.lock().unwrap();
                });
                let h2 = shuttle::thread::spawn(move || {
                    let _y = b.lock().unwrap();
                    let _x = a.lock().unwrap();
                });
                let _ = h.join();
                let _ = h2.join();
            });
            if let Some(m) = p {
                assert!(m.to_lowercase().contains("deadlock"), "{}", m);
                deadlocked = true;
                break;
            }
        }
        assert!(deadlocked);
    }
}
