//! The simulated environment of one generator run: file-system image, decision source
//! (seeded PRNG or explicit schedule), decision trace, captured stdout, event log, counters.
//! One `World` lives in a thread-local for the duration of one run; runs share nothing mutable.

use crate::rng::{Fnv, Rng};
use std::cell::RefCell;
use std::collections::{BTreeMap, VecDeque};
use std::path::{Component, Path, PathBuf};
use std::sync::Arc;

// ---------------------------------------------------------------------------------------------
// File-system image
// ---------------------------------------------------------------------------------------------

pub struct FsImage {
    /// real directory the virtual cwd stands for (`/repo/unic-langid-impl`)
    pub crate_dir: PathBuf,
    /// normalised relative path -> content
    pub files: BTreeMap<String, Arc<Vec<u8>>>,
    /// normalised relative dir path -> children (name, is_dir), sorted by name
    pub dirs: BTreeMap<String, Vec<(String, bool)>>,
    pub digest: u64,
    pub bytes: u64,
}

impl FsImage {
    /// Load `<crate_dir>/data` (recursively) from the real file system, once per process.
    pub fn load(crate_dir: &Path) -> Result<FsImage, String> {
        let mut img = FsImage {
            crate_dir: crate_dir.to_path_buf(),
            files: BTreeMap::new(),
            dirs: BTreeMap::new(),
            digest: 0,
            bytes: 0,
        };
        let root = crate_dir.join("data");
        if !root.is_dir() {
            return Err(format!("{} is not a directory", root.display()));
        }
        img.walk(&root, "data")?;
        let mut d = Fnv::default();
        for (k, v) in &img.files {
            d.str(k);
            d.bytes(v);
            img.bytes += v.len() as u64;
        }
        for (k, v) in &img.dirs {
            d.str(k);
            for (n, is_dir) in v {
                d.str(n);
                d.u64(*is_dir as u64);
            }
        }
        img.digest = d.0;
        Ok(img)
    }

    fn walk(&mut self, real: &Path, rel: &str) -> Result<(), String> {
        let mut children = vec![];
        let rd = std::fs::read_dir(real).map_err(|e| format!("read_dir {}: {}", real.display(), e))?;
        for e in rd {
            let e = e.map_err(|e| format!("read_dir {}: {}", real.display(), e))?;
            let name = e
                .file_name()
                .into_string()
                .map_err(|_| format!("non-UTF-8 file name under {}", real.display()))?;
            let p = e.path();
            // follow symlinks like the generator's own reads would
            let is_dir = p.is_dir();
            children.push((name.clone(), is_dir));
            let child_rel = format!("{}/{}", rel, name);
            if is_dir {
                self.walk(&p, &child_rel)?;
            } else {
                let content = std::fs::read(&p).map_err(|e| format!("read {}: {}", p.display(), e))?;
                self.files.insert(child_rel, Arc::new(content));
            }
        }
        children.sort();
        self.dirs.insert(rel.to_string(), children);
        Ok(())
    }

    /// Map a path as the generator spells it (relative to the virtual cwd, or absolute under the
    /// crate directory) to the image key. `None` = outside the image.
    pub fn normalise(&self, p: &Path) -> Option<String> {
        let rel: PathBuf = if p.is_absolute() {
            p.strip_prefix(&self.crate_dir).ok()?.to_path_buf()
        } else {
            p.to_path_buf()
        };
        let mut parts: Vec<String> = vec![];
        for c in rel.components() {
            match c {
                Component::CurDir => {}
                Component::ParentDir => {
                    parts.pop()?;
                }
                Component::Normal(s) => parts.push(s.to_str()?.to_string()),
                Component::RootDir | Component::Prefix(_) => return None,
            }
        }
        let key = parts.join("/");
        if key == "data" || key.starts_with("data/") {
            Some(key)
        } else {
            None
        }
    }
}

// ---------------------------------------------------------------------------------------------
// Decisions, schedule, profile
// ---------------------------------------------------------------------------------------------

#[derive(Clone, Copy, Debug, PartialEq, Eq)]
pub enum Tweak {
    None,
    Reverse,
    /// rotate the raw iteration order left by len*permille/1000
    Rotate(u32),
    /// member `index` (optionally reversed) of the adjacency-covering family over the elements
    /// taken in a canonical base order (see `zigzag`)
    Zigzag { index: u32, reverse: bool },
}

/// The adjacency-covering family. For even m the complete graph K_m decomposes into m/2
/// Hamiltonian paths (Walecki's zigzag: i, i+1, i-1, i+2, i-2, … mod m); walking each path in both
/// directions gives m permutations in which **every ordered pair (a, b), a != b, is adjacent
/// exactly once**, and every element is first once and last once. For odd n the family for n+1 is
/// used with the dummy element deleted (adjacent pairs stay adjacent). Returns a permutation of
/// 0..n.
pub fn zigzag(n: usize, index: u32, reverse: bool) -> Vec<u32> {
    if n == 0 {
        return vec![];
    }
    let m = if n % 2 == 0 { n } else { n + 1 } as i64;
    let i = (index as i64) % (m / 2).max(1);
    let mut v: Vec<u32> = Vec::with_capacity(n);
    for k in 0..m {
        // offsets 0, +1, -1, +2, -2, …
        let off = if k % 2 == 1 { (k + 1) / 2 } else { -(k / 2) };
        let x = (i + off).rem_euclid(m);
        if (x as usize) < n {
            v.push(x as u32);
        }
    }
    if reverse {
        v.reverse();
    }
    v
}

/// number of members of the family for n elements
pub fn zigzag_family_size(n: usize) -> u32 {
    (if n % 2 == 0 { n } else { n + 1 }) as u32
}

#[derive(Clone, Debug, PartialEq, Eq)]
pub enum Decision {
    /// order[i] = index (in the sorted listing) of the i-th entry returned
    ReadDir { path: String, order: Vec<u32> },
    /// kind 'M' = HashMap, 'S' = HashSet
    Container { kind: char, k0: u64, k1: u64, tweak: Tweak },
    /// benign stream behaviour of one opened file: 0 = whole reads, no EINTR
    Open { path: String, io_seed: u64 },
    /// a `thread::spawn`: run the body at spawn (eager) or defer it to the first join
    Spawn { eager: bool },
    /// order in which deferred thread bodies run at a join
    TaskOrder { order: Vec<u32> },
}

impl Decision {
    pub fn is_default(&self) -> bool {
        match self {
            Decision::ReadDir { order, .. } => order.iter().enumerate().all(|(i, &x)| i as u32 == x),
            Decision::Container { k0, k1, tweak, .. } => *k0 == 0 && *k1 == 0 && *tweak == Tweak::None,
            Decision::Open { io_seed, .. } => *io_seed == 0,
            Decision::Spawn { eager } => *eager,
            Decision::TaskOrder { order } => order.iter().enumerate().all(|(i, &x)| i as u32 == x),
        }
    }
    pub fn defaulted(&self) -> Decision {
        match self {
            Decision::ReadDir { path, order } => Decision::ReadDir {
                path: path.clone(),
                order: (0..order.len() as u32).collect(),
            },
            Decision::Container { kind, .. } => Decision::Container {
                kind: *kind,
                k0: 0,
                k1: 0,
                tweak: Tweak::None,
            },
            Decision::Open { path, .. } => Decision::Open {
                path: path.clone(),
                io_seed: 0,
            },
            Decision::Spawn { .. } => Decision::Spawn { eager: true },
            Decision::TaskOrder { order } => Decision::TaskOrder {
                order: (0..order.len() as u32).collect(),
            },
        }
    }
}

#[derive(Clone, Copy, Debug, PartialEq, Eq)]
pub enum DirMode {
    Sorted,
    Reverse,
    Shuffle,
    /// k entries moved to the front (or back) of a sorted / shuffled base order
    Spotlight { k: u32, front: bool, shuffled: bool },
    /// sorted with a few random adjacent transpositions
    NearSorted { swaps: u32 },
    /// sorted, rotated by a random offset
    Rotated,
    /// member of the adjacency-covering family (deterministic batch)
    Cover { index: u32, reverse: bool },
}

#[derive(Clone, Copy, Debug, PartialEq, Eq)]
pub enum HashMode {
    /// fresh keys for every container (what RandomState does between processes)
    Fresh,
    /// one key pair for all containers of the run (what RandomState does inside one thread, roughly)
    Shared(u64, u64),
    /// keys (0,0): a fixed hasher
    Zero,
}

#[derive(Clone, Copy, Debug, PartialEq, Eq)]
pub struct Profile {
    pub dir: DirMode,
    pub hash: HashMode,
    pub tweaks: bool,
    pub io: bool,
    /// deterministic batch: every container iterates in this member of the covering family
    pub cover_iter: Option<(u32, bool)>,
}

impl Profile {
    pub const DEFAULT: Profile = Profile {
        dir: DirMode::Sorted,
        hash: HashMode::Zero,
        tweaks: false,
        io: false,
        cover_iter: None,
    };

    /// Swarm-style: every run draws its own mix.
    pub fn draw(rng: &mut Rng) -> Profile {
        let dir = match rng.below(16) {
            0 => DirMode::Sorted,
            1 => DirMode::Reverse,
            2..=7 => DirMode::Shuffle,
            8..=11 => DirMode::Spotlight {
                k: 1 + rng.below(4) as u32,
                front: rng.chance(1, 2),
                shuffled: rng.chance(1, 2),
            },
            12..=13 => DirMode::NearSorted {
                swaps: 1 + rng.below(8) as u32,
            },
            _ => DirMode::Rotated,
        };
        let hash = match rng.below(8) {
            0 => HashMode::Zero,
            1..=2 => HashMode::Shared(rng.next_u64(), rng.next_u64()),
            _ => HashMode::Fresh,
        };
        let tweaks = rng.chance(1, 2);
        let io = rng.chance(1, 2);
        Profile {
            dir,
            hash,
            tweaks,
            io,
            cover_iter: None,
        }
    }

    /// member `j` of the deterministic adjacency-covering batch
    pub fn cover(j: u32) -> Profile {
        Profile {
            dir: DirMode::Cover {
                index: j / 2,
                reverse: j % 2 == 1,
            },
            hash: HashMode::Zero,
            tweaks: false,
            io: false,
            cover_iter: Some((j / 2, j % 2 == 1)),
        }
    }

    pub fn name(&self) -> String {
        let d = match self.dir {
            DirMode::Sorted => "dir=sorted".to_string(),
            DirMode::Reverse => "dir=reverse".to_string(),
            DirMode::Shuffle => "dir=shuffle".to_string(),
            DirMode::Spotlight { k, front, shuffled } => format!(
                "dir=spotlight(k={},{},{})",
                k,
                if front { "front" } else { "back" },
                if shuffled { "shuffled" } else { "sorted" }
            ),
            DirMode::NearSorted { swaps } => format!("dir=nearsorted({})", swaps),
            DirMode::Rotated => "dir=rotated".to_string(),
            DirMode::Cover { index, reverse } => format!("dir=cover({}{})", index, if reverse { ",rev" } else { "" }),
        };
        let h = match self.hash {
            HashMode::Fresh => "hash=fresh",
            HashMode::Shared(..) => "hash=shared",
            HashMode::Zero => "hash=zero",
        };
        format!(
            "{} {} tweaks={} io={}",
            d,
            h,
            if self.tweaks { "on" } else { "off" },
            if self.io { "on" } else { "off" }
        )
    }

    pub fn dir_kind(&self) -> &'static str {
        match self.dir {
            DirMode::Sorted => "sorted",
            DirMode::Reverse => "reverse",
            DirMode::Shuffle => "shuffle",
            DirMode::Spotlight { .. } => "spotlight",
            DirMode::NearSorted { .. } => "nearsorted",
            DirMode::Rotated => "rotated",
            DirMode::Cover { .. } => "cover",
        }
    }
}

/// A hard I/O fault planned for one run of the *non-gating* fault exploration (DESIGN §4.4):
/// the `at`-th file read (or the directory listing) misbehaves in a way a correct program cannot
/// be expected to mask.
#[derive(Clone, Copy, Debug, PartialEq, Eq, PartialOrd, Ord)]
pub enum HardKind {
    /// read fails with EIO
    ReadEio,
    /// read fails with ENOENT (file vanished between listing and reading)
    ReadEnoent,
    /// read returns a proper prefix of the file (torn / truncated file)
    Truncated,
    /// one bit of the content is flipped (still valid UTF-8 only by luck)
    BitFlip,
    /// the directory listing yields an error entry at position `at`
    DirEntryErr,
    /// read_dir itself fails
    ReadDirErr,
}

impl HardKind {
    pub const ALL: [HardKind; 6] = [
        HardKind::ReadEio,
        HardKind::ReadEnoent,
        HardKind::Truncated,
        HardKind::BitFlip,
        HardKind::DirEntryErr,
        HardKind::ReadDirErr,
    ];
    pub fn name(self) -> &'static str {
        match self {
            HardKind::ReadEio => "read_eio",
            HardKind::ReadEnoent => "read_enoent",
            HardKind::Truncated => "truncated_file",
            HardKind::BitFlip => "bit_flip",
            HardKind::DirEntryErr => "dir_entry_error",
            HardKind::ReadDirErr => "read_dir_error",
        }
    }
}

#[derive(Clone, Copy, Debug)]
pub struct HardPlan {
    pub kind: HardKind,
    /// index of the read / directory entry that misbehaves
    pub at: u64,
    /// extra entropy (truncation point, bit position)
    pub salt: u64,
}

pub enum Mode {
    Random { rng: Rng, profile: Profile },
    Replay { q: VecDeque<Decision> },
}

// ---------------------------------------------------------------------------------------------
// Counters and records
// ---------------------------------------------------------------------------------------------

#[derive(Clone, Debug, Default)]
pub struct RunStats {
    pub read_dir_calls: u64,
    pub read_dir_nonsorted: u64,
    pub containers: u64,
    pub containers_nonzero_keys: u64,
    pub tweaks_applied: u64,
    pub iterations: u64,
    pub whole_file_reads: u64,
    pub opens: u64,
    pub short_reads: u64,
    pub eintr: u64,
    pub bytes_read: u64,
    pub fs_escapes: u64,
    pub prints: u64,
    pub thread_spawns: u64,
    pub thread_spawns_deferred: u64,
}

impl RunStats {
    pub fn add(&mut self, o: &RunStats) {
        self.read_dir_calls += o.read_dir_calls;
        self.read_dir_nonsorted += o.read_dir_nonsorted;
        self.containers += o.containers;
        self.containers_nonzero_keys += o.containers_nonzero_keys;
        self.tweaks_applied += o.tweaks_applied;
        self.iterations += o.iterations;
        self.whole_file_reads += o.whole_file_reads;
        self.opens += o.opens;
        self.short_reads += o.short_reads;
        self.eintr += o.eintr;
        self.bytes_read += o.bytes_read;
        self.fs_escapes += o.fs_escapes;
        self.prints += o.prints;
        self.thread_spawns += o.thread_spawns;
        self.thread_spawns_deferred += o.thread_spawns_deferred;
    }
}

#[derive(Clone, Debug)]
pub struct IterRecord {
    pub container: u32,
    pub kind: char,
    /// fixed-key hash of each key in the order it was yielded
    pub ids: Vec<u64>,
}

pub struct World {
    pub image: Arc<FsImage>,
    pub mode: Mode,
    pub trace: Vec<Decision>,
    pub out: String,
    /// files the generator wrote (fs::write / File::create), captured instead of written
    pub written: BTreeMap<String, Vec<u8>>,
    pub log: Fnv,
    pub events: u64,
    pub stats: RunStats,
    /// first full iteration of each container (only when `collect`)
    pub iter_orders: Vec<IterRecord>,
    pub collect: bool,
    /// names returned by each read_dir call, in order (only when `collect`)
    pub dir_orders: Vec<(String, Vec<String>)>,
    /// replay asked for a decision the schedule did not have
    pub diverged: bool,
    pub next_container: u32,
    /// non-gating fault exploration only
    pub hard: Option<HardPlan>,
    pub hard_fired: bool,
    pub reads_seen: u64,
    /// optional human-readable event log (determinism proof / replay dumps)
    pub verbose_log: Option<Vec<String>>,
}

thread_local! {
    static WORLD: RefCell<Option<World>> = const { RefCell::new(None) };
    pub static PANIC_INFO: RefCell<Option<String>> = const { RefCell::new(None) };
    pub static IN_SIM: std::cell::Cell<bool> = const { std::cell::Cell::new(false) };
}

pub fn install(w: World) {
    WORLD.with(|c| *c.borrow_mut() = Some(w));
    IN_SIM.with(|f| f.set(true));
}

pub fn uninstall() -> World {
    IN_SIM.with(|f| f.set(false));
    WORLD.with(|c| c.borrow_mut().take()).expect("no world installed")
}

/// set when a seam is reached from a thread the simulator does not own (the generator spawned
/// threads): the harness then reports a harness error instead of a verdict
pub static FOREIGN_THREAD_SEAM_USE: std::sync::atomic::AtomicBool = std::sync::atomic::AtomicBool::new(false);

pub fn with<R>(f: impl FnOnce(&mut World) -> R) -> R {
    WORLD.with(|c| {
        let mut b = c.borrow_mut();
        let Some(w) = b.as_mut() else {
            FOREIGN_THREAD_SEAM_USE.store(true, std::sync::atomic::Ordering::SeqCst);
            panic!("simulation seam used outside a simulated run (generator code running on a thread the simulator does not own)");
        };
        f(w)
    })
}

impl World {
    pub fn new(image: Arc<FsImage>, mode: Mode, collect: bool, verbose: bool) -> World {
        World {
            image,
            mode,
            trace: vec![],
            out: String::new(),
            written: BTreeMap::new(),
            log: Fnv::default(),
            events: 0,
            stats: RunStats::default(),
            iter_orders: vec![],
            collect,
            dir_orders: vec![],
            diverged: false,
            next_container: 0,
            hard: None,
            hard_fired: false,
            reads_seen: 0,
            verbose_log: if verbose { Some(vec![]) } else { None },
        }
    }

    pub fn event(&mut self, tag: &str, a: u64, b: u64) {
        self.events += 1;
        self.log.str(tag);
        self.log.u64(a);
        self.log.u64(b);
        if let Some(v) = self.verbose_log.as_mut() {
            v.push(format!("{:>5} {} {:016x} {:016x}", self.events, tag, a, b));
        }
    }

    // ---- decisions --------------------------------------------------------------------------

    pub fn decide_read_dir(&mut self, path: &str, n: usize) -> Vec<u32> {
        let order: Vec<u32> = match &mut self.mode {
            Mode::Random { rng, profile } => gen_dir_order(rng, profile.dir, n),
            Mode::Replay { q } => match q.front() {
                Some(Decision::ReadDir { path: p, order }) if p == path && order.len() == n => {
                    let o = order.clone();
                    q.pop_front();
                    o
                }
                _ => {
                    self.diverged = true;
                    (0..n as u32).collect()
                }
            },
        };
        self.stats.read_dir_calls += 1;
        if !order.iter().enumerate().all(|(i, &x)| i as u32 == x) {
            self.stats.read_dir_nonsorted += 1;
        }
        let mut d = Fnv::default();
        for &x in &order {
            d.u64(x as u64);
        }
        let mut pd = Fnv::default();
        pd.str(path);
        self.event("read_dir", pd.0, d.0);
        self.trace.push(Decision::ReadDir {
            path: path.to_string(),
            order: order.clone(),
        });
        order
    }

    pub fn decide_container(&mut self, kind: char) -> (u32, u64, u64, Tweak) {
        let (k0, k1, tweak) = match &mut self.mode {
            Mode::Random { rng, profile } => {
                let (k0, k1) = match profile.hash {
                    HashMode::Fresh => (rng.next_u64(), rng.next_u64()),
                    HashMode::Shared(a, b) => (a, b),
                    HashMode::Zero => (0, 0),
                };
                let tweak = if let Some((index, reverse)) = profile.cover_iter {
                    Tweak::Zigzag { index, reverse }
                } else if profile.tweaks {
                    match rng.below(3) {
                        0 => Tweak::None,
                        1 => Tweak::Reverse,
                        _ => Tweak::Rotate(rng.below(1000) as u32),
                    }
                } else {
                    Tweak::None
                };
                (k0, k1, tweak)
            }
            Mode::Replay { q } => match q.front() {
                Some(Decision::Container { kind: k, k0, k1, tweak }) if *k == kind => {
                    let r = (*k0, *k1, *tweak);
                    q.pop_front();
                    r
                }
                _ => {
                    self.diverged = true;
                    (0, 0, Tweak::None)
                }
            },
        };
        let id = self.next_container;
        self.next_container += 1;
        self.stats.containers += 1;
        if k0 != 0 || k1 != 0 {
            self.stats.containers_nonzero_keys += 1;
        }
        if tweak != Tweak::None {
            self.stats.tweaks_applied += 1;
        }
        let t = match tweak {
            Tweak::None => 0,
            Tweak::Reverse => 1,
            Tweak::Rotate(p) => 2 + p as u64,
            Tweak::Zigzag { index, reverse } => 5000 + 2 * index as u64 + reverse as u64,
        };
        self.event(if kind == 'M' { "new_map" } else { "new_set" }, k0 ^ t, k1);
        self.trace.push(Decision::Container { kind, k0, k1, tweak });
        (id, k0, k1, tweak)
    }

    pub fn decide_spawn(&mut self) -> bool {
        let eager = match &mut self.mode {
            Mode::Random { rng, profile } => profile.cover_iter.is_some() || rng.chance(1, 2),
            Mode::Replay { q } => match q.front() {
                Some(Decision::Spawn { eager }) => {
                    let e = *eager;
                    q.pop_front();
                    e
                }
                _ => {
                    self.diverged = true;
                    true
                }
            },
        };
        self.stats.thread_spawns += 1;
        if !eager {
            self.stats.thread_spawns_deferred += 1;
        }
        self.event("spawn", eager as u64, 0);
        self.trace.push(Decision::Spawn { eager });
        eager
    }

    pub fn note_scoped_spawn(&mut self) {
        self.stats.thread_spawns += 1;
        self.event("scoped_spawn", 0, 0);
    }

    pub fn decide_task_order(&mut self, n: usize) -> Vec<u32> {
        let order: Vec<u32> = match &mut self.mode {
            Mode::Random { rng, .. } => {
                let mut v: Vec<u32> = (0..n as u32).collect();
                rng.shuffle(&mut v);
                v
            }
            Mode::Replay { q } => match q.front() {
                Some(Decision::TaskOrder { order }) if order.len() == n => {
                    let o = order.clone();
                    q.pop_front();
                    o
                }
                _ => {
                    self.diverged = true;
                    (0..n as u32).collect()
                }
            },
        };
        let mut d = Fnv::default();
        for &x in &order {
            d.u64(x as u64);
        }
        self.event("task_order", n as u64, d.0);
        self.trace.push(Decision::TaskOrder { order: order.clone() });
        order
    }

    pub fn decide_open(&mut self, path: &str) -> u64 {
        let io_seed = match &mut self.mode {
            Mode::Random { rng, profile } => {
                if profile.io {
                    rng.next_u64() | 1
                } else {
                    0
                }
            }
            Mode::Replay { q } => match q.front() {
                Some(Decision::Open { path: p, io_seed }) if p == path => {
                    let s = *io_seed;
                    q.pop_front();
                    s
                }
                _ => {
                    self.diverged = true;
                    0
                }
            },
        };
        self.stats.opens += 1;
        let mut pd = Fnv::default();
        pd.str(path);
        self.event("open", pd.0, io_seed);
        self.trace.push(Decision::Open {
            path: path.to_string(),
            io_seed,
        });
        io_seed
    }
}

pub fn gen_dir_order(rng: &mut Rng, mode: DirMode, n: usize) -> Vec<u32> {
    let mut v: Vec<u32> = (0..n as u32).collect();
    if n < 2 {
        return v;
    }
    match mode {
        DirMode::Sorted => {}
        DirMode::Reverse => v.reverse(),
        DirMode::Shuffle => rng.shuffle(&mut v),
        DirMode::Spotlight { k, front, shuffled } => {
            if shuffled {
                rng.shuffle(&mut v);
            }
            let k = (k as usize).min(n);
            let mut picked: Vec<u32> = vec![];
            for _ in 0..k {
                let i = rng.below(v.len() as u64) as usize;
                picked.push(v.remove(i));
            }
            if front {
                picked.extend(v);
                v = picked;
            } else {
                v.extend(picked);
            }
        }
        DirMode::NearSorted { swaps } => {
            for _ in 0..swaps {
                let i = rng.below(n as u64 - 1) as usize;
                v.swap(i, i + 1);
            }
        }
        DirMode::Rotated => {
            let r = rng.below(n as u64) as usize;
            v.rotate_left(r);
        }
        DirMode::Cover { index, reverse } => v = zigzag(n, index, reverse),
    }
    v
}

#[cfg(test)]
mod tests {
    use super::*;
    use std::collections::HashSet;

    #[test]
    fn zigzag_family_covers_every_ordered_adjacency() {
        for n in [2usize, 3, 4, 5, 6, 7, 8, 9, 16, 17, 50, 51] {
            let mut adj: HashSet<(u32, u32)> = HashSet::new();
            let mut first = HashSet::new();
            let mut last = HashSet::new();
            for j in 0..zigzag_family_size(n) {
                let p = zigzag(n, j / 2, j % 2 == 1);
                let mut sorted = p.clone();
                sorted.sort();
                assert_eq!(sorted, (0..n as u32).collect::<Vec<_>>(), "n={} j={} not a permutation", n, j);
                for w in p.windows(2) {
                    adj.insert((w[0], w[1]));
                }
                first.insert(p[0]);
                last.insert(*p.last().unwrap());
            }
            assert_eq!(adj.len(), n * (n - 1), "n={}: not every ordered pair is adjacent", n);
            if n % 2 == 0 {
                assert_eq!(first.len(), n);
                assert_eq!(last.len(), n);
            }
        }
    }
}
