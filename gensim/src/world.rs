//! The simulated environment of one generator run: file-system image, decision source
//! (seeded PRNG or explicit schedule), decision trace, captured stdout, event log, counters.
//! One `World` lives in a thread-local for the duration of one run; runs share nothing mutable.

use crate::rng::{Fnv, Rng};
use std::cell::RefCell;
use std::collections::{BTreeMap, VecDeque};
use std::path::{Component, Path, PathBuf};
use std::sync::Arc;

// ---------------------------------------------------------------------------------------------
// File-system image
// ---------------------------------------------------------------------------------------------

pub struct FsImage {
    /// real directory the virtual cwd stands for (`/repo/unic-langid-impl`)
    pub crate_dir: PathBuf,
    /// normalised relative path -> content
    pub files: BTreeMap<String, Arc<Vec<u8>>>,
    /// normalised relative dir path -> children (name, is_dir), sorted by name
    pub dirs: BTreeMap<String, Vec<(String, bool)>>,
    pub digest: u64,
    pub bytes: u64,
    /// per directory: indices (into the sorted listing) of the entries that stand out in the data
    /// (root-ish names, a script subtag in the name, non-default content): the order profiles
    /// that displace a few entries pick from these half of the time, because an order dependence
    /// usually hinges on the few entries that differ from the crowd
    pub special: BTreeMap<String, Vec<u32>>,
    /// files whose modification time differs from the one the pristine image gives them (an
    /// earlier version of the data, see `Drift`)
    pub mtime_salt: BTreeMap<String, u64>,
}

/// One difference between the bundled data and an *earlier version* of it that an earlier run of a
/// session saw (a CLDR update happened in between). The judged run always sees the bundled data.
#[derive(Clone, Debug, PartialEq, Eq)]
pub enum Drift {
    /// the earlier version lacked this child directory (it was added since)
    MissingDir { dir: String, name: String },
    /// the earlier version had one more child directory (removed since): a copy of `clone_of` in
    /// which every quoted occurrence of that name reads `name`
    ExtraDir { dir: String, name: String, clone_of: String },
    /// the earlier version of child `name` said what child `content_of` says now (with the names
    /// exchanged); its files carry a different modification time
    OtherContent { dir: String, name: String, content_of: String },
    /// the earlier version of this file lacked some of its lines (entries added since); different
    /// modification time
    MissingLines { file: String, lines: Vec<u32> },
    /// two entries of this file had each other's value; different modification time
    SwappedValues { file: String, a: u32, b: u32 },
}

impl FsImage {
    fn requote(content: &[u8], from: &str, to: &str) -> Vec<u8> {
        let text = String::from_utf8_lossy(content);
        text.replace(&format!("\"{}\"", from), &format!("\"{}\"", to)).into_bytes()
    }

    /// the image an earlier run saw
    pub fn with_drift(&self, drift: &[Drift]) -> FsImage {
        let mut img = FsImage {
            crate_dir: self.crate_dir.clone(),
            files: self.files.clone(),
            dirs: self.dirs.clone(),
            digest: self.digest,
            bytes: self.bytes,
            special: self.special.clone(),
            mtime_salt: self.mtime_salt.clone(),
        };
        for (n, d) in drift.iter().enumerate() {
            let salt = 0x0dd + n as u64;
            match d {
                Drift::MissingDir { dir, name } => {
                    if let Some(c) = img.dirs.get_mut(dir) {
                        c.retain(|(x, _)| x != name);
                    }
                    let prefix = format!("{}/{}/", dir, name);
                    img.files.retain(|k, _| !k.starts_with(&prefix));
                    img.dirs.retain(|k, _| !k.starts_with(&prefix) && *k != format!("{}/{}", dir, name));
                }
                Drift::ExtraDir { dir, name, clone_of } => {
                    let from = format!("{}/{}/", dir, clone_of);
                    let copies: Vec<(String, Arc<Vec<u8>>)> = self
                        .files
                        .range(from.clone()..)
                        .take_while(|(k, _)| k.starts_with(&from))
                        .map(|(k, v)| (format!("{}/{}/{}", dir, name, &k[from.len()..]), Arc::new(Self::requote(v, clone_of, name))))
                        .collect();
                    if copies.is_empty() {
                        continue;
                    }
                    let subdir_children: Vec<(String, bool)> = self.dirs.get(&format!("{}/{}", dir, clone_of)).cloned().unwrap_or_default();
                    img.dirs.insert(format!("{}/{}", dir, name), subdir_children);
                    for (k, v) in copies {
                        img.mtime_salt.insert(k.clone(), salt);
                        img.files.insert(k, v);
                    }
                    if let Some(c) = img.dirs.get_mut(dir) {
                        if !c.iter().any(|(x, _)| x == name) {
                            c.push((name.clone(), true));
                            c.sort();
                        }
                    }
                }
                Drift::OtherContent { dir, name, content_of } => {
                    let from = format!("{}/{}/", dir, content_of);
                    let copies: Vec<(String, Arc<Vec<u8>>)> = self
                        .files
                        .range(from.clone()..)
                        .take_while(|(k, _)| k.starts_with(&from))
                        .map(|(k, v)| (format!("{}/{}/{}", dir, name, &k[from.len()..]), Arc::new(Self::requote(v, content_of, name))))
                        .collect();
                    for (k, v) in copies {
                        if img.files.contains_key(&k) {
                            img.mtime_salt.insert(k.clone(), salt);
                            img.files.insert(k, v);
                        }
                    }
                }
                Drift::MissingLines { file, lines } => {
                    if let Some(v) = img.files.get(file).cloned() {
                        let text = String::from_utf8_lossy(&v).into_owned();
                        let kept: Vec<&str> = text
                            .split_inclusive('\n')
                            .enumerate()
                            .filter(|(i, _)| !lines.contains(&(*i as u32)))
                            .map(|(_, l)| l)
                            .collect();
                        img.files.insert(file.clone(), Arc::new(kept.concat().into_bytes()));
                        img.mtime_salt.insert(file.clone(), salt);
                    }
                }
                Drift::SwappedValues { file, a, b } => {
                    if let Some(v) = img.files.get(file).cloned() {
                        let text = String::from_utf8_lossy(&v).into_owned();
                        let mut ls: Vec<String> = text.split_inclusive('\n').map(|l| l.to_string()).collect();
                        let (a, b) = (*a as usize, *b as usize);
                        if a < ls.len() && b < ls.len() {
                            // `"key": value,` lines: exchange what follows the first colon
                            if let (Some(ia), Some(ib)) = (ls[a].find(':'), ls[b].find(':')) {
                                let (va, vb) = (ls[a][ia..].to_string(), ls[b][ib..].to_string());
                                ls[a] = format!("{}{}", &ls[a][..ia], vb);
                                ls[b] = format!("{}{}", &ls[b][..ib], va);
                            }
                        }
                        img.files.insert(file.clone(), Arc::new(ls.concat().into_bytes()));
                        img.mtime_salt.insert(file.clone(), salt);
                    }
                }
            }
        }
        img
    }

    /// lines of `file` that look like one `"key": "value",` entry of a long list
    fn entry_lines(content: &[u8]) -> Vec<u32> {
        let text = String::from_utf8_lossy(content);
        text.split_inclusive('\n')
            .enumerate()
            .filter(|(_, l)| {
                let t = l.trim();
                t.starts_with('"') && t.ends_with("\",") && t.matches('"').count() == 4 && t.contains("\": \"")
            })
            .map(|(i, _)| i as u32)
            .collect()
    }

    /// Draw the differences of an earlier data version (one to three), biased towards the entries
    /// that stand out in the data.
    pub fn draw_drift(&self, rng: &mut Rng) -> Vec<Drift> {
        let big_dirs: Vec<&String> = self.dirs.iter().filter(|(_, c)| c.len() >= 8).map(|(k, _)| k).collect();
        let big_files: Vec<(&String, Vec<u32>)> = self
            .files
            .iter()
            .filter(|(_, v)| v.len() > 20_000)
            .map(|(k, v)| (k, Self::entry_lines(v)))
            .filter(|(_, l)| l.len() >= 16)
            .collect();
        let mut out = vec![];
        let n = 1 + rng.below(3);
        for _ in 0..n {
            let use_dir = !big_dirs.is_empty() && (big_files.is_empty() || rng.chance(2, 3));
            if use_dir {
                let dir = big_dirs[rng.below(big_dirs.len() as u64) as usize];
                let children = &self.dirs[dir];
                let special: &[u32] = self.special.get(dir).map(|v| v.as_slice()).unwrap_or(&[]);
                let pick = |rng: &mut Rng, biased: bool| -> String {
                    let i = if biased && !special.is_empty() {
                        special[rng.below(special.len() as u64) as usize] as usize
                    } else {
                        rng.below(children.len() as u64) as usize
                    };
                    children[i].0.clone()
                };
                match rng.below(3) {
                    0 => {
                        let biased = rng.chance(1, 2);
                        out.push(Drift::MissingDir { dir: dir.clone(), name: pick(rng, biased) })
                    }
                    1 => {
                        let src = pick(rng, true);
                        // a private-use language code in place of the language subtag
                        let q = format!("q{}{}", (b'a' + rng.below(20) as u8) as char, (b'a' + rng.below(26) as u8) as char);
                        let name = match src.split_once(|c| c == '-' || c == '_') {
                            Some((_, rest)) => format!("{}-{}", q, rest),
                            None => q,
                        };
                        if !children.iter().any(|(x, _)| *x == name) {
                            out.push(Drift::ExtraDir { dir: dir.clone(), name, clone_of: src });
                        }
                    }
                    _ => {
                        let flip = rng.chance(1, 2);
                        let a = pick(rng, flip);
                        let b = pick(rng, !flip);
                        if a != b {
                            out.push(Drift::OtherContent { dir: dir.clone(), name: a, content_of: b });
                        }
                    }
                }
            } else if !big_files.is_empty() {
                let (file, lines) = &big_files[rng.below(big_files.len() as u64) as usize];
                if rng.chance(1, 2) {
                    let k = 1 + rng.below(4);
                    let mut l: Vec<u32> = (0..k).map(|_| lines[rng.below(lines.len() as u64) as usize]).collect();
                    l.sort();
                    l.dedup();
                    out.push(Drift::MissingLines { file: (*file).clone(), lines: l });
                } else {
                    let a = lines[rng.below(lines.len() as u64) as usize];
                    let b = lines[rng.below(lines.len() as u64) as usize];
                    if a != b {
                        out.push(Drift::SwappedValues { file: (*file).clone(), a, b });
                    }
                }
            }
        }
        out
    }

    /// Load `<crate_dir>/data` (recursively) from the real file system, once per process.
    pub fn load(crate_dir: &Path) -> Result<FsImage, String> {
        let mut img = FsImage {
            crate_dir: crate_dir.to_path_buf(),
            files: BTreeMap::new(),
            dirs: BTreeMap::new(),
            digest: 0,
            bytes: 0,
            special: BTreeMap::new(),
            mtime_salt: BTreeMap::new(),
        };
        let root = crate_dir.join("data");
        if !root.is_dir() {
            return Err(format!("{} is not a directory", root.display()));
        }
        img.walk(&root, "data")?;
        let mut d = Fnv::default();
        for (k, v) in &img.files {
            d.str(k);
            d.bytes(v);
            img.bytes += v.len() as u64;
        }
        for (k, v) in &img.dirs {
            d.str(k);
            for (n, is_dir) in v {
                d.str(n);
                d.u64(*is_dir as u64);
            }
        }
        img.digest = d.0;
        // entries that stand out: by name, or by what the files below them say. "What they say"
        // is measured, not assumed: a word of a child's files counts when fewer than a quarter of
        // the directory's children have it and it is not taken from the child's own name.
        let mut special = BTreeMap::new();
        let words_of = |dir: &str, name: &str| -> std::collections::BTreeSet<String> {
            let mut own: Vec<String> = name.split(|c| c == '-' || c == '_').map(|p| p.to_ascii_lowercase()).collect();
            own.push(name.to_ascii_lowercase());
            let prefix = format!("{}/{}/", dir, name);
            let mut set = std::collections::BTreeSet::new();
            for (k, content) in img.files.range(prefix.clone()..) {
                if !k.starts_with(&prefix) {
                    break;
                }
                for w in content.split(|b| !(b.is_ascii_alphanumeric() || *b == b'-')) {
                    if w.is_empty() || w.len() > 40 {
                        continue;
                    }
                    let w = String::from_utf8_lossy(w).to_string();
                    if !own.contains(&w.to_ascii_lowercase()) {
                        set.insert(w);
                    }
                }
            }
            set
        };
        for (dir, children) in &img.dirs {
            if children.len() < 8 {
                continue;
            }
            let words: Vec<std::collections::BTreeSet<String>> = children
                .iter()
                .map(|(name, is_dir)| if *is_dir { words_of(dir, name) } else { Default::default() })
                .collect();
            let mut count: BTreeMap<&str, usize> = BTreeMap::new();
            for set in &words {
                for w in set {
                    *count.entry(w.as_str()).or_default() += 1;
                }
            }
            let mut v: Vec<u32> = vec![];
            for (i, (name, _)) in children.iter().enumerate() {
                let rootish = matches!(name.as_str(), "und" | "root" | "und-ZZ");
                let scripted = name.split(|c| c == '-' || c == '_').skip(1).any(|p| p.len() == 4 && p.bytes().all(|b| b.is_ascii_alphabetic()));
                let rare_word = words[i].iter().any(|w| count[w.as_str()] * 4 < children.len());
                if rootish || scripted || rare_word {
                    v.push(i as u32);
                }
            }
            if !v.is_empty() && v.len() < children.len() {
                special.insert(dir.clone(), v);
            }
        }
        img.special = special;
        Ok(img)
    }

    fn walk(&mut self, real: &Path, rel: &str) -> Result<(), String> {
        let mut children = vec![];
        let rd = std::fs::read_dir(real).map_err(|e| format!("read_dir {}: {}", real.display(), e))?;
        for e in rd {
            let e = e.map_err(|e| format!("read_dir {}: {}", real.display(), e))?;
            let name = e
                .file_name()
                .into_string()
                .map_err(|_| format!("non-UTF-8 file name under {}", real.display()))?;
            let p = e.path();
            // follow symlinks like the generator's own reads would
            let is_dir = p.is_dir();
            children.push((name.clone(), is_dir));
            let child_rel = format!("{}/{}", rel, name);
            if is_dir {
                self.walk(&p, &child_rel)?;
            } else {
                let content = std::fs::read(&p).map_err(|e| format!("read {}: {}", p.display(), e))?;
                self.files.insert(child_rel, Arc::new(content));
            }
        }
        children.sort();
        self.dirs.insert(rel.to_string(), children);
        Ok(())
    }

    /// Map a path as the generator spells it (relative to the virtual cwd, or absolute under the
    /// crate directory) to the image key. `None` = outside the image.
    pub fn normalise(&self, p: &Path) -> Option<String> {
        let rel: PathBuf = if p.is_absolute() {
            p.strip_prefix(&self.crate_dir).ok()?.to_path_buf()
        } else {
            p.to_path_buf()
        };
        let mut parts: Vec<String> = vec![];
        for c in rel.components() {
            match c {
                Component::CurDir => {}
                Component::ParentDir => {
                    parts.pop()?;
                }
                Component::Normal(s) => parts.push(s.to_str()?.to_string()),
                Component::RootDir | Component::Prefix(_) => return None,
            }
        }
        let key = parts.join("/");
        if key == "data" || key.starts_with("data/") {
            Some(key)
        } else {
            None
        }
    }
}

// ---------------------------------------------------------------------------------------------
// Decisions, schedule, profile
// ---------------------------------------------------------------------------------------------

#[derive(Clone, Copy, Debug, PartialEq, Eq)]
pub enum Tweak {
    None,
    Reverse,
    /// rotate the raw iteration order left by len*permille/1000
    Rotate(u32),
    /// member `index` (optionally reversed) of the adjacency-covering family over the elements
    /// taken in a canonical base order (see `zigzag`)
    Zigzag { index: u32, reverse: bool },
}

/// The adjacency-covering family. For even m the complete graph K_m decomposes into m/2
/// Hamiltonian paths (Walecki's zigzag: i, i+1, i-1, i+2, i-2, … mod m); walking each path in both
/// directions gives m permutations in which **every ordered pair (a, b), a != b, is adjacent
/// exactly once**, and every element is first once and last once. For odd n the family for n+1 is
/// used with the dummy element deleted (adjacent pairs stay adjacent). Returns a permutation of
/// 0..n.
pub fn zigzag(n: usize, index: u32, reverse: bool) -> Vec<u32> {
    if n == 0 {
        return vec![];
    }
    let m = if n % 2 == 0 { n } else { n + 1 } as i64;
    let i = (index as i64) % (m / 2).max(1);
    let mut v: Vec<u32> = Vec::with_capacity(n);
    for k in 0..m {
        // offsets 0, +1, -1, +2, -2, …
        let off = if k % 2 == 1 { (k + 1) / 2 } else { -(k / 2) };
        let x = (i + off).rem_euclid(m);
        if (x as usize) < n {
            v.push(x as u32);
        }
    }
    if reverse {
        v.reverse();
    }
    v
}

/// number of members of the family for n elements
pub fn zigzag_family_size(n: usize) -> u32 {
    (if n % 2 == 0 { n } else { n + 1 }) as u32
}

#[derive(Clone, Debug, PartialEq, Eq)]
pub enum Decision {
    /// order[i] = index (in the sorted listing) of the i-th entry returned
    ReadDir { path: String, order: Vec<u32> },
    /// kind 'M' = HashMap, 'S' = HashSet
    Container { kind: char, k0: u64, k1: u64, tweak: Tweak },
    /// benign stream behaviour of one opened file: 0 = whole reads, no EINTR
    Open { path: String, io_seed: u64 },
    /// thread scheduling (runs under the shuttle engine): at scheduling step `at`, run task `task`
    /// instead of the default choice (default = keep running the current task while it is runnable
    /// and not yielding, otherwise the runnable task with the lowest id). `task == NO_DEVIATION`
    /// stands for "no deviation at this step" (what the minimiser replaces a deviation with).
    Sched { at: u64, task: u32 },
    /// answer of `thread::available_parallelism()`
    Cores { n: u32 },
    /// a wait with a deadline (`recv_timeout`) found nothing to receive: does the deadline pass
    /// before any other thread makes progress (a stalled machine), or does the wait block?
    Timeout { fired: bool },
    /// an optional external tool (`rustfmt`) is asked for: is it installed on this machine?
    Program { name: String, available: bool },
    /// the program holds a few hundred files open at once: what is this machine's soft limit on
    /// open file descriptors (`ulimit -n`: 256 on macOS, 1024 on most Linux distributions)?
    FdLimit { n: u32 },
    /// the `at`-th read of a file in this run fails with EIO (a bad sector, a flaky network
    /// mount): the one hard I/O fault of the gating runs. A run that meets it may fail loudly;
    /// it may not complete with a different table.
    ReadFault { at: u64 },
    /// (round 11) the device the program writes its output to (the redirected stdout and every
    /// file it creates: one disk) accepts `at` more bytes and is full from then on: the write
    /// that crosses the mark is short, every later one fails with ENOSPC. Like the read error: a
    /// run that meets it may fail loudly; it may not complete with a different table.
    WriteFault { at: u64 },
    /// (round 13) the `at`-th path-based metadata query of this run (`stat`: `fs::metadata`,
    /// `Path::exists/is_dir/is_file`, `DirEntry::metadata`) fails with EIO - a flaky mount, a
    /// stale NFS handle. `Path::is_dir()` and friends turn that into `false`, as std does. Same
    /// rule as for the read error: a run that meets it may fail loudly; it may not complete with
    /// a different table.
    StatFault { at: u64 },
    /// (round 15) the `at`-th thread creation of this run fails with EAGAIN (RLIMIT_NPROC, a
    /// container's pids limit, no memory for the stack): `thread::Builder::spawn` /
    /// `spawn_scoped` return the error, `thread::spawn` / `Scope::spawn` panic as std does. Same
    /// rule as for the other hard faults: the run may fail loudly, it may not complete with a
    /// different table (a fallback path that does the work on the calling thread is fine).
    SpawnFault { at: u64 },
    /// (round 16) the program asks for an environment variable that by its name sets a job or
    /// thread count (`CARGO_BUILD_JOBS`, `RAYON_NUM_THREADS`, `NUM_JOBS`, ...): CI systems and
    /// build wrappers set these. `n == 0`: not set (the default); otherwise its value.
    EnvJobs { name: String, n: u32 },
}

/// length of each generator's output under the default schedule (layout, likely): where the
/// seeded "disk full" marks are placed relative to; set once per process before any seeded run
pub static OUT_LEN_HINT: [std::sync::atomic::AtomicU64; 2] = [std::sync::atomic::AtomicU64::new(700), std::sync::atomic::AtomicU64::new(520_000)];

pub const NO_DEVIATION: u32 = u32::MAX;
pub const NO_FAULT: u64 = u64::MAX;
/// (round 16) `Decision::ReadFault { at }` with this bit set: the error is persistent — every later
/// read of the same file fails too (a bad sector rather than a hiccup)
pub const PERSISTENT_BIT: u64 = 1 << 40;
/// salt of the hard plan that stands for the persistent kind
pub const PERSISTENT_EIO: u64 = 0x5049_434b;
pub const DEFAULT_CORES: u32 = 8;
pub const DEFAULT_FD_LIMIT: u32 = 1024;
/// open descriptors at which the machine's limit becomes a decision of the run
pub const FD_DECISION_THRESHOLD: u64 = 200;

impl Decision {
    pub fn is_default(&self) -> bool {
        match self {
            Decision::ReadDir { order, .. } => order.iter().enumerate().all(|(i, &x)| i as u32 == x),
            Decision::Container { k0, k1, tweak, .. } => *k0 == 0 && *k1 == 0 && *tweak == Tweak::None,
            Decision::Open { io_seed, .. } => *io_seed == 0,
            Decision::Sched { task, .. } => *task == NO_DEVIATION,
            Decision::Cores { n } => *n == DEFAULT_CORES,
            Decision::Timeout { fired } => !*fired,
            Decision::Program { available, .. } => *available,
            Decision::FdLimit { n } => *n == DEFAULT_FD_LIMIT,
            Decision::ReadFault { at } => *at == NO_FAULT,
            Decision::WriteFault { at } => *at == NO_FAULT,
            Decision::StatFault { at } => *at == NO_FAULT,
            Decision::SpawnFault { at } => *at == NO_FAULT,
            Decision::EnvJobs { n, .. } => *n == 0,
        }
    }
    pub fn defaulted(&self) -> Decision {
        match self {
            Decision::ReadDir { path, order } => Decision::ReadDir {
                path: path.clone(),
                order: (0..order.len() as u32).collect(),
            },
            Decision::Container { kind, .. } => Decision::Container {
                kind: *kind,
                k0: 0,
                k1: 0,
                tweak: Tweak::None,
            },
            Decision::Open { path, .. } => Decision::Open {
                path: path.clone(),
                io_seed: 0,
            },
            Decision::Sched { at, .. } => Decision::Sched {
                at: *at,
                task: NO_DEVIATION,
            },
            Decision::Cores { .. } => Decision::Cores { n: DEFAULT_CORES },
            Decision::Timeout { .. } => Decision::Timeout { fired: false },
            Decision::Program { name, .. } => Decision::Program {
                name: name.clone(),
                available: true,
            },
            Decision::FdLimit { .. } => Decision::FdLimit { n: DEFAULT_FD_LIMIT },
            Decision::ReadFault { .. } => Decision::ReadFault { at: NO_FAULT },
            Decision::WriteFault { .. } => Decision::WriteFault { at: NO_FAULT },
            Decision::StatFault { .. } => Decision::StatFault { at: NO_FAULT },
            Decision::SpawnFault { .. } => Decision::SpawnFault { at: NO_FAULT },
            Decision::EnvJobs { name, .. } => Decision::EnvJobs { name: name.clone(), n: 0 },
        }
    }
    /// scheduling deviations live in their own stream (keyed by step), `Open` decisions are keyed
    /// by path; everything else is consumed in program order
    pub fn is_sequenced(&self) -> bool {
        !matches!(self, Decision::Sched { .. } | Decision::Open { .. })
    }
}

/// How the thread scheduler picks the next task in a seeded run.
#[derive(Clone, Copy, Debug, PartialEq, Eq)]
pub enum SchedMode {
    /// the default choice at every step (no preemption)
    Default,
    /// uniform among the runnable tasks at every step
    Uniform,
    /// keep the current task; switch to a uniformly chosen other task with probability permille/1000
    Sticky(u32),
    /// PCT-style: random task priorities, the running task is demoted at `depth` random steps of
    /// the first `horizon` steps
    Pct { depth: u32, horizon: u32 },
}

#[derive(Clone, Copy, Debug, PartialEq, Eq)]
pub enum DirMode {
    Sorted,
    Reverse,
    Shuffle,
    /// k entries moved to the front (or back) of a sorted / shuffled base order
    Spotlight { k: u32, front: bool, shuffled: bool },
    /// k entries (half of the time from the directory's stand-out entries) made adjacent, in a
    /// random order, at a random position of a sorted / shuffled base order
    Cluster { k: u32, shuffled: bool },
    /// sorted with a few random adjacent transpositions
    NearSorted { swaps: u32 },
    /// sorted, rotated by a random offset
    Rotated,
    /// member of the adjacency-covering family (deterministic batch)
    Cover { index: u32, reverse: bool },
}

#[derive(Clone, Copy, Debug, PartialEq, Eq)]
pub enum HashMode {
    /// fresh keys for every container (what RandomState does between processes)
    Fresh,
    /// one key pair for all containers of the run (what RandomState does inside one thread, roughly)
    Shared(u64, u64),
    /// keys (0,0): a fixed hasher
    Zero,
}

#[derive(Clone, Copy, Debug, PartialEq, Eq)]
pub struct Profile {
    pub dir: DirMode,
    pub hash: HashMode,
    pub tweaks: bool,
    pub io: bool,
    /// deterministic batch: every container iterates in this member of the covering family
    pub cover_iter: Option<(u32, bool)>,
    /// thread scheduling policy (only consulted when the generator runs threads)
    pub sched: SchedMode,
    /// deadlines of timed waits may pass (stalled-machine fault)
    pub stall: bool,
    /// short writes / EINTR on output streams
    pub out_io: bool,
    /// Spotlight / Cluster pick their entries from the directory's stand-out entries
    pub biased: bool,
    /// one read of this run fails with EIO
    pub read_fault: bool,
    /// the output device fills up in this run: seed of the byte count it still accepts (0 = never)
    pub write_fault: u64,
    /// one path-based metadata query of this run fails with EIO: seed of which one (0 = none)
    pub stat_fault: u64,
    /// one thread creation of this run fails with EAGAIN: seed of which one (0 = none)
    pub spawn_fault: u64,
    /// covering family only: the machine's core count (0 = the default)
    pub cover_cores: u32,
}

impl Profile {
    pub const DEFAULT: Profile = Profile {
        dir: DirMode::Sorted,
        hash: HashMode::Zero,
        tweaks: false,
        io: false,
        cover_iter: None,
        sched: SchedMode::Default,
        stall: false,
        out_io: false,
        biased: false,
        read_fault: false,
        write_fault: 0,
        stat_fault: 0,
        spawn_fault: 0,
        cover_cores: 0,
    };

    /// Swarm-style: every run draws its own mix.
    pub fn draw(rng: &mut Rng) -> Profile {
        let dir = match rng.below(16) {
            0 => DirMode::Sorted,
            1 => DirMode::Reverse,
            2..=7 => DirMode::Shuffle,
            8..=11 => DirMode::Spotlight {
                k: 1 + rng.below(4) as u32,
                front: rng.chance(1, 2),
                shuffled: rng.chance(1, 2),
            },
            12..=13 => DirMode::NearSorted {
                swaps: 1 + rng.below(8) as u32,
            },
            _ => DirMode::Rotated,
        };
        // (the Cluster profile is drawn from the auxiliary stream, see draw_aux)
        let hash = match rng.below(8) {
            0 => HashMode::Zero,
            1..=2 => HashMode::Shared(rng.next_u64(), rng.next_u64()),
            _ => HashMode::Fresh,
        };
        let tweaks = rng.chance(1, 2);
        let io = rng.chance(1, 2);
        Profile {
            dir,
            hash,
            tweaks,
            io,
            cover_iter: None,
            sched: SchedMode::Default,
            stall: false,
            out_io: false,
            biased: false,
            read_fault: false,
        write_fault: 0,
        stat_fault: 0,
        spawn_fault: 0,
        cover_cores: 0,
        }
    }

    /// The part of the profile that was added after the first release of the simulator is drawn
    /// from the run's auxiliary stream, so that the directory / hash decisions of a given
    /// (seed, run) stay what they were.
    pub fn draw_aux(&mut self, aux: &mut Rng) {
        self.sched = match aux.below(16) {
            0..=1 => SchedMode::Default,
            2..=6 => SchedMode::Uniform,
            7..=10 => SchedMode::Sticky([20, 100, 300][aux.below(3) as usize]),
            _ => SchedMode::Pct {
                depth: 1 + aux.below(4) as u32,
                horizon: [64, 512, 4096, 20000][aux.below(4) as usize],
            },
        };
        self.stall = aux.chance(1, 3);
        self.out_io = aux.chance(1, 2);
        // one run in five trades its directory profile for a cluster of adjacent entries
        if aux.chance(1, 5) {
            self.dir = DirMode::Cluster {
                k: 2 + aux.below(3) as u32,
                shuffled: aux.chance(1, 2),
            };
        }
        self.biased = aux.chance(1, 2);
        self.read_fault = aux.chance(1, 6);
    }

    /// member `j` of the deterministic adjacency-covering batch
    pub fn cover(j: u32) -> Profile {
        Profile {
            dir: DirMode::Cover {
                index: j / 2,
                reverse: j % 2 == 1,
            },
            hash: HashMode::Zero,
            tweaks: false,
            io: false,
            cover_iter: Some((j / 2, j % 2 == 1)),
            sched: SchedMode::Default,
            stall: false,
            out_io: false,
            biased: false,
            read_fault: false,
        write_fault: 0,
        stat_fault: 0,
        spawn_fault: 0,
        cover_cores: 0,
        }
    }

    pub fn name(&self) -> String {
        let d = match self.dir {
            DirMode::Sorted => "dir=sorted".to_string(),
            DirMode::Reverse => "dir=reverse".to_string(),
            DirMode::Shuffle => "dir=shuffle".to_string(),
            DirMode::Spotlight { k, front, shuffled } => format!(
                "dir=spotlight(k={},{},{})",
                k,
                if front { "front" } else { "back" },
                if shuffled { "shuffled" } else { "sorted" }
            ),
            DirMode::Cluster { k, shuffled } => format!("dir=cluster(k={},{})", k, if shuffled { "shuffled" } else { "sorted" }),
            DirMode::NearSorted { swaps } => format!("dir=nearsorted({})", swaps),
            DirMode::Rotated => "dir=rotated".to_string(),
            DirMode::Cover { index, reverse } => format!("dir=cover({}{})", index, if reverse { ",rev" } else { "" }),
        };
        let h = match self.hash {
            HashMode::Fresh => "hash=fresh",
            HashMode::Shared(..) => "hash=shared",
            HashMode::Zero => "hash=zero",
        };
        format!(
            "{} {} tweaks={} io={} out_io={} sched={:?} stall={}",
            d,
            h,
            if self.tweaks { "on" } else { "off" },
            if self.io { "on" } else { "off" },
            if self.out_io { "on" } else { "off" },
            self.sched,
            if self.stall { "on" } else { "off" }
        )
    }

    pub fn dir_kind(&self) -> &'static str {
        match self.dir {
            DirMode::Sorted => "sorted",
            DirMode::Reverse => "reverse",
            DirMode::Shuffle => "shuffle",
            DirMode::Spotlight { .. } => "spotlight",
            DirMode::Cluster { .. } => "cluster",
            DirMode::NearSorted { .. } => "nearsorted",
            DirMode::Rotated => "rotated",
            DirMode::Cover { .. } => "cover",
        }
    }
}

/// A hard I/O fault planned for one run of the *non-gating* fault exploration (DESIGN §4.4):
/// the `at`-th file read (or the directory listing) misbehaves in a way a correct program cannot
/// be expected to mask.
#[derive(Clone, Copy, Debug, PartialEq, Eq, PartialOrd, Ord)]
pub enum HardKind {
    /// read fails with EIO
    ReadEio,
    /// read fails with ENOENT (file vanished between listing and reading)
    ReadEnoent,
    /// read returns a proper prefix of the file (torn / truncated file)
    Truncated,
    /// one bit of the content is flipped (still valid UTF-8 only by luck)
    BitFlip,
    /// the directory listing yields an error entry at position `at`
    DirEntryErr,
    /// read_dir itself fails
    ReadDirErr,
}

impl HardKind {
    pub const ALL: [HardKind; 6] = [
        HardKind::ReadEio,
        HardKind::ReadEnoent,
        HardKind::Truncated,
        HardKind::BitFlip,
        HardKind::DirEntryErr,
        HardKind::ReadDirErr,
    ];
    pub fn name(self) -> &'static str {
        match self {
            HardKind::ReadEio => "read_eio",
            HardKind::ReadEnoent => "read_enoent",
            HardKind::Truncated => "truncated_file",
            HardKind::BitFlip => "bit_flip",
            HardKind::DirEntryErr => "dir_entry_error",
            HardKind::ReadDirErr => "read_dir_error",
        }
    }
}

#[derive(Clone, Copy, Debug)]
pub struct HardPlan {
    pub kind: HardKind,
    /// index of the read / directory entry that misbehaves
    pub at: u64,
    /// extra entropy (truncation point, bit position)
    pub salt: u64,
}

#[derive(Clone)]
pub enum Mode {
    /// `rng` feeds the directory / container / open / task-order decisions, `aux` everything that
    /// was added later (scheduling, cores, timeouts, output-stream plans)
    Random { rng: Rng, aux: Rng, profile: Profile },
    Replay(ReplayPlan),
}

/// An explicit schedule, ready to be consumed by a run.
#[derive(Default, Clone)]
pub struct ReplayPlan {
    /// decisions consumed in program order
    pub q: VecDeque<Decision>,
    /// stream plans by path (consumed in order per path)
    pub opens: BTreeMap<String, VecDeque<u64>>,
    /// scheduling deviations by step
    pub sched: BTreeMap<u64, u32>,
}

impl ReplayPlan {
    pub fn new(schedule: &[Decision]) -> ReplayPlan {
        let mut p = ReplayPlan::default();
        for d in schedule {
            match d {
                Decision::Sched { at, task } => {
                    if *task != NO_DEVIATION {
                        p.sched.insert(*at, *task);
                    }
                }
                Decision::Open { path, io_seed } => p.opens.entry(path.clone()).or_default().push_back(*io_seed),
                other => p.q.push_back(other.clone()),
            }
        }
        p
    }
    pub fn leftover(&self) -> usize {
        self.q.len()
    }
}

/// PCT scheduler state of one run
#[derive(Default)]
pub struct PctState {
    pub prio: BTreeMap<u32, u64>,
    pub change_at: Vec<u64>,
    pub next_low: u64,
}

// ---------------------------------------------------------------------------------------------
// Counters and records
// ---------------------------------------------------------------------------------------------

#[derive(Clone, Debug, Default)]
pub struct RunStats {
    pub read_dir_calls: u64,
    pub read_dir_nonsorted: u64,
    pub containers: u64,
    pub containers_nonzero_keys: u64,
    pub tweaks_applied: u64,
    pub iterations: u64,
    pub whole_file_reads: u64,
    pub opens: u64,
    pub short_reads: u64,
    pub eintr: u64,
    pub bytes_read: u64,
    pub fs_escapes: u64,
    pub prints: u64,
    pub thread_spawns: u64,
    pub thread_spawns_deferred: u64,
    pub sched_steps: u64,
    pub sched_choice_points: u64,
    pub context_switches: u64,
    pub sched_deviations: u64,
    pub max_tasks: u64,
    pub timeouts_offered: u64,
    pub timeouts_fired: u64,
    pub timeouts_natural: u64,
    pub cores_asked: u64,
    pub short_writes: u64,
    pub write_eintr: u64,
    pub stderr_prints: u64,
    pub prints_after_exit: u64,
    pub clock_reads: u64,
    pub shuttle_runs: u64,
    pub programs_spawned: u64,
    pub programs_missing: u64,
    pub fd_limit_decisions: u64,
    pub emfile: u64,
    pub max_open_fds: u64,
    pub parallel_stages: u64,
    pub read_faults_injected: u64,
    /// runs in which the output device filled up (ENOSPC) while the program was writing
    pub write_faults_injected: u64,
    pub stat_faults_injected: u64,
    pub spawn_faults_injected: u64,
    /// panics of spawned threads that did not end the run (handed to `join` or lost with a detached thread)
    pub thread_panics_survived: u64,
}

impl RunStats {
    pub fn add(&mut self, o: &RunStats) {
        self.read_dir_calls += o.read_dir_calls;
        self.read_dir_nonsorted += o.read_dir_nonsorted;
        self.containers += o.containers;
        self.containers_nonzero_keys += o.containers_nonzero_keys;
        self.tweaks_applied += o.tweaks_applied;
        self.iterations += o.iterations;
        self.whole_file_reads += o.whole_file_reads;
        self.opens += o.opens;
        self.short_reads += o.short_reads;
        self.eintr += o.eintr;
        self.bytes_read += o.bytes_read;
        self.fs_escapes += o.fs_escapes;
        self.prints += o.prints;
        self.thread_spawns += o.thread_spawns;
        self.thread_spawns_deferred += o.thread_spawns_deferred;
        self.sched_steps += o.sched_steps;
        self.sched_choice_points += o.sched_choice_points;
        self.context_switches += o.context_switches;
        self.sched_deviations += o.sched_deviations;
        self.max_tasks = self.max_tasks.max(o.max_tasks);
        self.timeouts_offered += o.timeouts_offered;
        self.timeouts_fired += o.timeouts_fired;
        self.timeouts_natural += o.timeouts_natural;
        self.cores_asked += o.cores_asked;
        self.short_writes += o.short_writes;
        self.write_eintr += o.write_eintr;
        self.stderr_prints += o.stderr_prints;
        self.prints_after_exit += o.prints_after_exit;
        self.clock_reads += o.clock_reads;
        self.shuttle_runs += o.shuttle_runs;
        self.programs_spawned += o.programs_spawned;
        self.programs_missing += o.programs_missing;
        self.fd_limit_decisions += o.fd_limit_decisions;
        self.emfile += o.emfile;
        self.max_open_fds = self.max_open_fds.max(o.max_open_fds);
        self.parallel_stages += o.parallel_stages;
        self.read_faults_injected += o.read_faults_injected;
        self.write_faults_injected += o.write_faults_injected;
        self.stat_faults_injected += o.stat_faults_injected;
        self.spawn_faults_injected += o.spawn_faults_injected;
        self.thread_panics_survived += o.thread_panics_survived;
    }
}

#[derive(Clone, Debug)]
pub struct IterRecord {
    pub container: u32,
    pub kind: char,
    /// fixed-key hash of each key in the order it was yielded
    pub ids: Vec<u64>,
}

/// What survives a process: the files earlier runs of a session left behind (on top of the
/// image), their modification times, the wall clock. One `Disk` is handed from run to run of a
/// *session* (a history of generator executions on one machine, some of them cut short).
#[derive(Clone, Debug, Default)]
pub struct Disk {
    pub files: BTreeMap<String, Vec<u8>>,
    pub mtimes: BTreeMap<String, u64>,
    /// image files that were deleted
    pub removed: std::collections::BTreeSet<String>,
    pub clock_ns: u64,
    /// decides the (arbitrary, checkout-time) modification times of the image files
    pub mtime_seed: u64,
    /// executions this machine has seen so far
    pub epoch: u32,
}

pub const CLOCK_START_NS: u64 = 1_700_000_000_000_000_000;

impl Disk {
    pub fn fresh(mtime_seed: u64) -> Disk {
        Disk {
            clock_ns: CLOCK_START_NS,
            mtime_seed,
            ..Default::default()
        }
    }
    pub fn digest(&self) -> u64 {
        let mut d = Fnv::default();
        for (k, v) in &self.files {
            d.str(k);
            d.bytes(v);
        }
        for k in &self.removed {
            d.str(k);
        }
        d.0
    }
}

#[derive(Clone, Copy, Debug, PartialEq, Eq, PartialOrd, Ord)]
pub enum CrashKind {
    /// the process dies (SIGKILL, Ctrl-C, panic=abort, OOM killer): everything the completed
    /// `write` calls handed to the kernel survives; a write in progress may be cut short
    Kill,
    /// the machine loses power: what was not made durable (`sync_all`/`sync_data`) may be lost,
    /// torn or — for a rename whose source was never synced — replaced by an empty or partial file
    PowerLoss,
}

impl CrashKind {
    pub fn name(self) -> &'static str {
        match self {
            CrashKind::Kill => "kill",
            CrashKind::PowerLoss => "power_loss",
        }
    }
}

/// Where an earlier run of a session is cut short: at its `at`-th crash point (file-system
/// mutations and prints, counted from 0). A run with fewer crash points completes.
#[derive(Clone, Copy, Debug, PartialEq, Eq)]
pub struct CrashPlan {
    pub at: u64,
    pub kind: CrashKind,
    pub salt: u64,
}

/// A second instance of a generator started while this one is running: it runs from start to
/// finish on the same disk right before this run's `at`-th file-system mutation (one preemption).
#[derive(Clone)]
pub struct IntruderPlan {
    /// 0 = generate_layout, 1 = generate_likelysubtags
    pub gen_id: u8,
    pub mode: Mode,
    pub at: u64,
    /// (round 17) the second instance does not run to completion: it is killed (or simply still
    /// running when the first instance goes on) at this file-system mutation / print of its own.
    /// What it has written so far is on the disk; its locks are gone with it.
    pub kill_at: Option<u64>,
}

/// File identity on the simulated disk: a handle opened for writing refers to an *inode*, which
/// keeps its identity when the file is renamed and lives on, nameless, when the name is removed
/// or taken over by another file while the handle is open (its content is then private to the
/// process under an orphan key and vanishes with it).
#[derive(Clone, Default, Debug)]
pub struct Inodes {
    pub by_name: BTreeMap<String, u64>,
    /// inode -> current name (`None`: unlinked, still open)
    pub names: BTreeMap<u64, Option<String>>,
    pub next: u64,
    /// open handles per inode
    pub open: BTreeMap<u64, u32>,
    /// (round 13) advisory whole-file locks (`File::lock`, `flock`): inode -> (pid of the holder,
    /// exclusive?, holders). A lock dies with its process; the table is shared with a second
    /// instance, which finds the running instance's locks taken.
    pub flocks: BTreeMap<u64, (u32, bool, u32)>,
}

pub fn orphan_key(ino: u64) -> String {
    format!("<orphan:{}>", ino)
}

/// what the seam does at a crash point
#[derive(Clone, Copy, Debug, PartialEq, Eq)]
pub enum Gate {
    Go,
    /// the process image is already gone: the operation has no effect
    Gone,
    /// crash now, the operation is not applied
    CrashBefore,
    /// apply the operation, then crash
    CrashAfter,
    /// data write: only the first n bytes reach the file, then crash
    Torn(usize),
}

pub struct World {
    pub image: Arc<FsImage>,
    pub mode: Mode,
    pub trace: Vec<Decision>,
    pub out: String,
    /// files the generator wrote (fs::write / File::create), captured instead of written
    pub written: BTreeMap<String, Vec<u8>>,
    pub log: Fnv,
    pub events: u64,
    pub stats: RunStats,
    /// first full iteration of each container (only when `collect`)
    pub iter_orders: Vec<IterRecord>,
    pub collect: bool,
    /// names returned by each read_dir call, in order (only when `collect`)
    pub dir_orders: Vec<(String, Vec<String>)>,
    /// replay asked for a decision the schedule did not have
    pub diverged: bool,
    pub next_container: u32,
    /// non-gating fault exploration only
    pub hard: Option<HardPlan>,
    pub hard_fired: bool,
    pub reads_seen: u64,
    /// optional human-readable event log (determinism proof / replay dumps)
    pub verbose_log: Option<Vec<String>>,
    /// the process image is gone (`process::exit` was called or `main` returned): whatever other
    /// threads or destructors still write is lost, as it would be in reality
    pub frozen: bool,
    /// digest of the sequence of scheduled task ids (the interleaving)
    pub sched_digest: Fnv,
    pub pct: Option<PctState>,
    /// simulated wall clock (nanoseconds since the epoch), advanced at every read
    pub clock_ns: u64,
    /// a deadline passed in this run (stalled-machine fault): a fail-stop afterwards is not judged
    pub stalled: bool,
    /// short-write / EINTR plan of the stdout handle, decided at its first `write`
    pub stdout_plan: Option<Option<Rng>>,
    pub stdout_eintr: u32,
    pub exit_code: Option<i32>,
    /// set by the scheduler when the current task yields: can any other task run?
    pub yield_probe: Option<bool>,
    /// this run executes under the thread scheduler
    pub under_shuttle: bool,
    /// the program asked for an external tool that this simulated machine does not have: a
    /// fail-stop afterwards is not judged
    pub missing_program: bool,
    /// modification times of the files in `written`
    pub mtimes: BTreeMap<String, u64>,
    /// image files this session deleted
    pub removed: std::collections::BTreeSet<String>,
    /// for every path this run modified: its content at the last durable point (start of the run,
    /// or its last `sync_all`); `None` = did not exist
    pub pre: BTreeMap<String, Option<Vec<u8>>>,
    /// files whose current content was made durable (`sync_all`/`sync_data` after the last write)
    pub synced: std::collections::BTreeSet<String>,
    /// crash points passed so far (file-system mutations and prints)
    pub crash_points: u64,
    pub fs_mutations: u64,
    pub crash: Option<CrashPlan>,
    pub crashed: Option<CrashKind>,
    pub torn_write: bool,
    pub mtime_seed: u64,
    pub metadata_queries: u64,
    /// descriptors the program holds open right now (stdio + files + directory handles)
    pub open_fds: u64,
    pub fd_limit: Option<u32>,
    /// an `open` failed with EMFILE in this run: a fail-stop afterwards is not judged
    pub fd_exhausted: bool,
    /// tasks that yielded (polled) since they last ran: not offered while others can run
    pub yielded: std::collections::BTreeSet<u32>,
    /// size of the simulated rayon pool (decided like the core count, or set by the program)
    pub rayon_threads: Option<u32>,
    /// the machine's core count, once it has been asked for
    pub cores: Option<u32>,
    /// working directory of the simulated process (starts as the crate directory)
    pub cwd: PathBuf,
    /// process id of this simulated execution
    pub pid: u32,
    pub epoch: u32,
    pub intruder: Option<IntruderPlan>,
    /// the gating read fault of this run has been decided (at its first read)
    pub read_fault_decided: bool,
    /// the hard fault of this run is the gating one (EIO on a read): failing loudly is fine
    pub gating_fault: bool,
    /// (round 11) the output device of this run: decided at the first data write
    pub write_fault_decided: bool,
    /// bytes the output device still accepts (None = it never fills up)
    pub out_budget: Option<u64>,
    /// a write of this run met the full device: failing loudly is fine
    pub write_faulted: bool,
    /// (round 13) which path-based metadata query fails with EIO in this run, how many were seen
    /// (round 16) the file whose reads keep failing with EIO (persistent read error)
    pub eio_path: Option<String>,
    /// (round 16) job-count environment variables asked for so far in this execution
    pub env_jobs: BTreeMap<String, u32>,
    pub stat_fault_decided: bool,
    pub stat_fault_at: Option<u64>,
    pub stats_seen: u64,
    pub stat_faulted: bool,
    /// (round 15) which thread creation fails with EAGAIN in this run, how many were seen
    pub spawn_fault_decided: bool,
    pub spawn_fault_at: Option<u64>,
    pub spawns_seen: u64,
    pub spawn_faulted: bool,
    /// 0 = generate_layout, 1 = generate_likelysubtags (index into OUT_LEN_HINT)
    pub gen_index: usize,
    pub intruded: bool,
    pub intruder_result: Option<Box<crate::sim::RunResult>>,
    pub inodes: Inodes,
    /// (kept for the result record; no longer set: file identity is modelled)
    pub company_ambiguous: bool,
}

thread_local! {
    static WORLD: RefCell<Option<World>> = const { RefCell::new(None) };
    pub static PANIC_INFO: RefCell<Option<String>> = const { RefCell::new(None) };
    pub static IN_SIM: std::cell::Cell<bool> = const { std::cell::Cell::new(false) };
}

pub fn install(w: World) {
    WORLD.with(|c| *c.borrow_mut() = Some(w));
    IN_SIM.with(|f| f.set(true));
}

pub fn installed() -> bool {
    WORLD.with(|c| c.try_borrow().map(|w| w.is_some()).unwrap_or(false))
}

pub fn uninstall() -> World {
    IN_SIM.with(|f| f.set(false));
    WORLD.with(|c| c.borrow_mut().take()).expect("no world installed")
}

/// set when a seam is reached from a thread the simulator does not own (the generator spawned
/// threads): the harness then reports a harness error instead of a verdict
pub static FOREIGN_THREAD_SEAM_USE: std::sync::atomic::AtomicBool = std::sync::atomic::AtomicBool::new(false);

/// like `with`, for destructors that may run after the world is gone
pub fn try_with<R>(f: impl FnOnce(&mut World) -> R) -> Option<R> {
    WORLD
        .try_with(|c| match c.try_borrow_mut() {
            Ok(mut b) => b.as_mut().map(f),
            Err(_) => None,
        })
        .ok()
        .flatten()
}

pub fn with<R>(f: impl FnOnce(&mut World) -> R) -> R {
    WORLD.with(|c| {
        let mut b = c.borrow_mut();
        let Some(w) = b.as_mut() else {
            FOREIGN_THREAD_SEAM_USE.store(true, std::sync::atomic::Ordering::SeqCst);
            panic!("simulation seam used outside a simulated run (generator code running on a thread the simulator does not own)");
        };
        f(w)
    })
}

impl World {
    pub fn new(image: Arc<FsImage>, mode: Mode, collect: bool, verbose: bool) -> World {
        World {
            cwd: image.crate_dir.clone(),
            image,
            mode,
            trace: vec![],
            out: String::new(),
            written: BTreeMap::new(),
            log: Fnv::default(),
            events: 0,
            stats: RunStats::default(),
            iter_orders: vec![],
            collect,
            dir_orders: vec![],
            diverged: false,
            next_container: 0,
            hard: None,
            hard_fired: false,
            reads_seen: 0,
            verbose_log: if verbose { Some(vec![]) } else { None },
            frozen: false,
            sched_digest: Fnv::default(),
            pct: None,
            clock_ns: CLOCK_START_NS,
            stalled: false,
            stdout_plan: None,
            stdout_eintr: 0,
            exit_code: None,
            yield_probe: None,
            under_shuttle: false,
            missing_program: false,
            mtimes: BTreeMap::new(),
            removed: Default::default(),
            pre: BTreeMap::new(),
            synced: Default::default(),
            crash_points: 0,
            fs_mutations: 0,
            crash: None,
            crashed: None,
            torn_write: false,
            mtime_seed: 0,
            metadata_queries: 0,
            open_fds: 3,
            fd_limit: None,
            fd_exhausted: false,
            yielded: Default::default(),
            rayon_threads: None,
            cores: None,
            pid: 4711,
            epoch: 0,
            intruder: None,
            read_fault_decided: false,
            gating_fault: false,
            write_fault_decided: false,
            out_budget: None,
            write_faulted: false,
            eio_path: None,
            env_jobs: BTreeMap::new(),
            stat_fault_decided: false,
            stat_fault_at: None,
            stats_seen: 0,
            stat_faulted: false,
            spawn_fault_decided: false,
            spawn_fault_at: None,
            spawns_seen: 0,
            spawn_faulted: false,
            gen_index: 0,
            intruded: false,
            intruder_result: None,
            inodes: Inodes::default(),
            company_ambiguous: false,
        }
    }

    /// The program opens one more descriptor. `Err` = the machine's limit is reached (EMFILE).
    /// The limit becomes a decision of the run the moment the program holds a few hundred
    /// descriptors at once; a program that opens one file at a time never gets near it.
    pub fn fd_open(&mut self) -> Result<(), ()> {
        if self.open_fds + 1 > FD_DECISION_THRESHOLD && self.fd_limit.is_none() {
            let n = match &mut self.mode {
                Mode::Random { aux, profile, .. } => {
                    if profile.cover_iter.is_some() {
                        DEFAULT_FD_LIMIT
                    } else {
                        [256, 256, 1024, 1024, 4096][aux.below(5) as usize]
                    }
                }
                Mode::Replay(ReplayPlan { q, .. }) => match q.front() {
                    Some(Decision::FdLimit { n }) => {
                        let n = *n;
                        q.pop_front();
                        n
                    }
                    _ => {
                        self.diverged = true;
                        DEFAULT_FD_LIMIT
                    }
                },
            };
            self.fd_limit = Some(n);
            self.stats.fd_limit_decisions += 1;
            self.event("fd_limit", n as u64, 0);
            self.trace.push(Decision::FdLimit { n });
        }
        if let Some(l) = self.fd_limit {
            if self.open_fds + 1 > l as u64 {
                self.fd_exhausted = true;
                crate::isolate::child_fault_notice();
                self.stats.emfile += 1;
                self.event("emfile", self.open_fds, 0);
                return Err(());
            }
        }
        self.open_fds += 1;
        self.stats.max_open_fds = self.stats.max_open_fds.max(self.open_fds);
        Ok(())
    }

    /// a handle is opened for writing on `name`: the inode behind that name (a new one if the name
    /// is new)
    pub fn ino_open(&mut self, name: &str) -> u64 {
        let ino = match self.inodes.by_name.get(name) {
            Some(i) => *i,
            None => {
                self.inodes.next += 1;
                let i = self.inodes.next;
                self.inodes.by_name.insert(name.to_string(), i);
                i
            }
        };
        self.inodes.names.insert(ino, Some(name.to_string()));
        *self.inodes.open.entry(ino).or_default() += 1;
        ino
    }
    pub fn ino_dup(&mut self, ino: u64) {
        *self.inodes.open.entry(ino).or_default() += 1;
    }
    pub fn ino_close(&mut self, ino: u64) {
        let gone = match self.inodes.open.get_mut(&ino) {
            Some(n) => {
                *n = n.saturating_sub(1);
                *n == 0
            }
            None => false,
        };
        if gone {
            self.funlock(ino);
            self.inodes.open.remove(&ino);
            if let Some(None) = self.inodes.names.get(&ino) {
                // last handle of an unlinked file: its content goes away
                self.inodes.names.remove(&ino);
                self.written.remove(&orphan_key(ino));
            }
        }
    }
    /// `flock`-style lock on an open inode: Ok(()) taken, Err(()) held by another process
    pub fn flock(&mut self, ino: u64, exclusive: bool) -> Result<(), ()> {
        let pid = self.pid;
        match self.inodes.flocks.get_mut(&ino) {
            Some((p, ex, n)) if *p == pid => {
                // conversion / another descriptor of the same process: granted
                *ex = exclusive;
                *n = (*n).max(1);
                Ok(())
            }
            Some((_, ex, n)) => {
                if !*ex && !exclusive {
                    *n += 1;
                    Ok(())
                } else {
                    Err(())
                }
            }
            None => {
                self.inodes.flocks.insert(ino, (pid, exclusive, 1));
                Ok(())
            }
        }
    }
    pub fn funlock(&mut self, ino: u64) {
        let pid = self.pid;
        if matches!(self.inodes.flocks.get(&ino), Some((p, _, _)) if *p == pid) {
            self.inodes.flocks.remove(&ino);
        }
    }
    /// where the content of an open inode lives right now
    pub fn ino_key(&self, ino: u64, fallback: &str) -> String {
        match self.inodes.names.get(&ino) {
            Some(Some(n)) => n.clone(),
            Some(None) => orphan_key(ino),
            None => fallback.to_string(),
        }
    }
    /// `name` stops naming its inode (removed, or about to be taken over by a rename): if a handle
    /// is still open on it, the content lives on under the orphan key
    pub fn ino_unlink(&mut self, name: &str) {
        if let Some(i) = self.inodes.by_name.remove(name) {
            if self.inodes.open.get(&i).copied().unwrap_or(0) > 0 {
                if let Some(c) = self.written.get(name).cloned() {
                    self.written.insert(orphan_key(i), c);
                }
                self.inodes.names.insert(i, None);
            } else {
                self.inodes.names.remove(&i);
            }
        }
    }
    /// the inode named `from` is now named `to`
    pub fn ino_rename(&mut self, from: &str, to: &str) {
        if let Some(i) = self.inodes.by_name.remove(from) {
            self.inodes.by_name.insert(to.to_string(), i);
            self.inodes.names.insert(i, Some(to.to_string()));
        }
    }

    /// a path as the simulated process spells it, made absolute against its working directory
    pub fn absolute(&self, p: &Path) -> PathBuf {
        if p.is_absolute() {
            p.to_path_buf()
        } else {
            self.cwd.join(p)
        }
    }

    /// Start this run on what earlier runs of the session left behind.
    pub fn load_disk(&mut self, d: &Disk) {
        self.written = d.files.clone();
        self.mtimes = d.mtimes.clone();
        self.removed = d.removed.clone();
        self.clock_ns = d.clock_ns;
        self.mtime_seed = d.mtime_seed;
        // another process than its predecessors in the session
        self.epoch = d.epoch;
        self.pid = 2000 + d.epoch * 37 + (d.mtime_seed % 1000) as u32;
    }

    /// What this run leaves behind. After a power loss every path modified since its last durable
    /// point ends up, by a seeded choice, with its old content, its new content or — when the new
    /// content was never synced — a prefix of it (possibly empty).
    pub fn disk_after(&self) -> Disk {
        let mut files = self.written.clone();
        // unlinked-but-open files die with the process
        files.retain(|k, _| !k.starts_with("<orphan:"));
        let mut mtimes = self.mtimes.clone();
        let mut removed = self.removed.clone();
        if let (Some(CrashKind::PowerLoss), Some(plan)) = (self.crashed, self.crash) {
            for (key, old) in &self.pre {
                let live = self.written.get(key).cloned();
                if live == *old {
                    continue;
                }
                let mut h = Fnv::default();
                h.str(key);
                h.u64(plan.salt);
                let mut r = Rng::new(h.0);
                let synced = self.synced.contains(key);
                // 0 = old, 1 = new, 2 = torn prefix of new, 3 = empty
                let pick = match (&live, synced) {
                    (Some(_), true) => r.below(2),
                    (Some(_), false) => [0, 0, 1, 1, 1, 2, 2, 3][r.below(8) as usize],
                    (None, _) => r.below(2), // removal durable or not
                };
                let result: Option<Vec<u8>> = match pick {
                    0 => old.clone(),
                    1 => live.clone(),
                    2 => live.as_ref().map(|v| v[..r.below(v.len() as u64 + 1) as usize].to_vec()),
                    _ => live.as_ref().map(|_| vec![]),
                };
                match result {
                    Some(v) => {
                        files.insert(key.clone(), v);
                        mtimes.entry(key.clone()).or_insert(self.clock_ns);
                        removed.remove(key);
                    }
                    None => {
                        files.remove(key);
                        mtimes.remove(key);
                        if self.image.files.contains_key(key) {
                            removed.insert(key.clone());
                        }
                    }
                }
            }
        }
        Disk {
            files,
            mtimes,
            removed,
            clock_ns: self.clock_ns,
            mtime_seed: self.mtime_seed,
            epoch: self.epoch + 1,
        }
    }

    /// One crash point: a file-system mutation (`data_len` = bytes of a data write) or a print.
    pub fn gate(&mut self, mutation: bool, data_len: Option<usize>) -> Gate {
        if self.frozen {
            return Gate::Gone;
        }
        let idx = self.crash_points;
        self.crash_points += 1;
        if mutation {
            self.fs_mutations += 1;
        }
        let Some(plan) = self.crash else { return Gate::Go };
        // a process that is already dying of a panic (destructors flushing buffers while the
        // stack unwinds) is not crashed a second time
        if plan.at != idx || std::thread::panicking() {
            return Gate::Go;
        }
        let mut r = Rng::new(plan.salt ^ 0x6a7e);
        let g = match data_len {
            Some(n) if n > 0 => match r.below(4) {
                0 => Gate::CrashBefore,
                1 => Gate::CrashAfter,
                _ => {
                    self.torn_write = true;
                    Gate::Torn(r.below(n as u64 + 1) as usize)
                }
            },
            _ => {
                if r.chance(1, 2) {
                    Gate::CrashBefore
                } else {
                    Gate::CrashAfter
                }
            }
        };
        self.event("crash", idx, plan.kind as u64);
        g
    }

    /// The process image goes away now (called by the seam right after `gate` said so).
    pub fn crash_now(&mut self) {
        let kind = self.crash.map(|c| c.kind).unwrap_or(CrashKind::Kill);
        self.crashed = Some(kind);
        self.frozen = true;
    }

    /// modification time of an image file: checkout time, arbitrary per file
    pub fn image_mtime(&self, key: &str) -> u64 {
        let mut h = Fnv::default();
        h.str(key);
        h.u64(self.mtime_seed);
        if let Some(s) = self.image.mtime_salt.get(key) {
            h.u64(*s);
        }
        CLOCK_START_NS - 1 - h.0 % (30 * 86_400 * 1_000_000_000u64)
    }

    /// bookkeeping before a path is modified: remember its last durable content, it is no longer
    /// synced, its modification time is now
    pub fn touch(&mut self, key: &str) {
        if !self.pre.contains_key(key) {
            let old = self.written.get(key).cloned().or_else(|| {
                if self.removed.contains(key) {
                    None
                } else {
                    self.image.files.get(key).map(|d| (**d).clone())
                }
            });
            self.pre.insert(key.to_string(), old);
        }
        self.synced.remove(key);
        self.clock_ns += 1_000;
        self.mtimes.insert(key.to_string(), self.clock_ns);
    }

    /// `sync_all`/`sync_data` on a file: its current content is durable
    pub fn mark_synced(&mut self, key: &str) {
        let cur = self.written.get(key).cloned();
        self.pre.insert(key.to_string(), cur);
        self.synced.insert(key.to_string());
    }

    pub fn event(&mut self, tag: &str, a: u64, b: u64) {
        self.events += 1;
        self.log.str(tag);
        self.log.u64(a);
        self.log.u64(b);
        if let Some(v) = self.verbose_log.as_mut() {
            v.push(format!("{:>5} {} {:016x} {:016x}", self.events, tag, a, b));
        }
    }

    // ---- decisions --------------------------------------------------------------------------

    pub fn decide_read_dir(&mut self, path: &str, n: usize) -> Vec<u32> {
        let order: Vec<u32> = match &mut self.mode {
            Mode::Random { rng, aux, profile } => {
                let special: &[u32] = if profile.biased {
                    self.image.special.get(path).map(|v| v.as_slice()).unwrap_or(&[])
                } else {
                    &[]
                };
                match profile.dir {
                    // drawn from the auxiliary stream: the main stream's draws stay what they were
                    DirMode::Cluster { .. } => gen_dir_order(aux, profile.dir, n, special),
                    DirMode::Spotlight { .. } if !special.is_empty() => {
                        // same main-stream consumption as the unbiased spotlight, then re-pick
                        let base = gen_dir_order(rng, profile.dir, n, &[]);
                        respotlight(aux, base, profile.dir, special)
                    }
                    _ => gen_dir_order(rng, profile.dir, n, &[]),
                }
            }
            Mode::Replay(ReplayPlan { q, .. }) => match q.front() {
                Some(Decision::ReadDir { path: p, order }) if p == path && order.len() == n => {
                    let o = order.clone();
                    q.pop_front();
                    o
                }
                _ => {
                    self.diverged = true;
                    (0..n as u32).collect()
                }
            },
        };
        self.stats.read_dir_calls += 1;
        if !order.iter().enumerate().all(|(i, &x)| i as u32 == x) {
            self.stats.read_dir_nonsorted += 1;
        }
        let mut d = Fnv::default();
        for &x in &order {
            d.u64(x as u64);
        }
        let mut pd = Fnv::default();
        pd.str(path);
        self.event("read_dir", pd.0, d.0);
        self.trace.push(Decision::ReadDir {
            path: path.to_string(),
            order: order.clone(),
        });
        order
    }

    pub fn decide_container(&mut self, kind: char) -> (u32, u64, u64, Tweak) {
        let (k0, k1, tweak) = match &mut self.mode {
            Mode::Random { rng, profile, .. } => {
                let (k0, k1) = match profile.hash {
                    HashMode::Fresh => (rng.next_u64(), rng.next_u64()),
                    HashMode::Shared(a, b) => (a, b),
                    HashMode::Zero => (0, 0),
                };
                let tweak = if let Some((index, reverse)) = profile.cover_iter {
                    Tweak::Zigzag { index, reverse }
                } else if profile.tweaks {
                    match rng.below(3) {
                        0 => Tweak::None,
                        1 => Tweak::Reverse,
                        _ => Tweak::Rotate(rng.below(1000) as u32),
                    }
                } else {
                    Tweak::None
                };
                (k0, k1, tweak)
            }
            Mode::Replay(ReplayPlan { q, .. }) => match q.front() {
                Some(Decision::Container { kind: k, k0, k1, tweak }) if *k == kind => {
                    let r = (*k0, *k1, *tweak);
                    q.pop_front();
                    r
                }
                _ => {
                    self.diverged = true;
                    (0, 0, Tweak::None)
                }
            },
        };
        let id = self.next_container;
        self.next_container += 1;
        self.stats.containers += 1;
        if k0 != 0 || k1 != 0 {
            self.stats.containers_nonzero_keys += 1;
        }
        if tweak != Tweak::None {
            self.stats.tweaks_applied += 1;
        }
        let t = match tweak {
            Tweak::None => 0,
            Tweak::Reverse => 1,
            Tweak::Rotate(p) => 2 + p as u64,
            Tweak::Zigzag { index, reverse } => 5000 + 2 * index as u64 + reverse as u64,
        };
        self.event(if kind == 'M' { "new_map" } else { "new_set" }, k0 ^ t, k1);
        self.trace.push(Decision::Container { kind, k0, k1, tweak });
        (id, k0, k1, tweak)
    }

    pub fn decide_open(&mut self, path: &str) -> u64 {
        self.decide_stream(path, false)
    }

    /// Stream plan of one opened file / output handle. `output` streams follow the profile's
    /// `out_io` switch and draw from the auxiliary stream.
    pub fn decide_stream(&mut self, path: &str, output: bool) -> u64 {
        let io_seed = match &mut self.mode {
            Mode::Random { rng, aux, profile } => {
                if output {
                    if profile.out_io {
                        aux.next_u64() | 1
                    } else {
                        0
                    }
                } else if profile.io {
                    rng.next_u64() | 1
                } else {
                    0
                }
            }
            // keyed by path, so that a replay with a different directory order (the minimiser
            // reorders listings) still gives each file the stream behaviour it had
            Mode::Replay(plan) => match plan.opens.get_mut(path).and_then(|q| q.pop_front()) {
                Some(s) => s,
                None => {
                    self.diverged = true;
                    0
                }
            },
        };
        self.stats.opens += 1;
        let mut pd = Fnv::default();
        pd.str(path);
        self.event("open", pd.0, io_seed);
        self.trace.push(Decision::Open {
            path: path.to_string(),
            io_seed,
        });
        io_seed
    }

    /// An environment variable that sets a job / thread count: 0 = not set
    pub fn decide_env_jobs(&mut self, name: &str) -> u32 {
        if let Some(n) = self.env_jobs.get(name) {
            return *n;
        }
        let n = match &mut self.mode {
            Mode::Random { aux, profile, .. } => {
                if profile.cover_iter.is_some() || aux.chance(1, 2) {
                    0
                } else if aux.chance(1, 2) {
                    const C: [u32; 8] = [1, 2, 4, 4, 8, 8, 12, 16];
                    C[aux.below(C.len() as u64) as usize]
                } else {
                    1 + aux.below(128) as u32
                }
            }
            Mode::Replay(ReplayPlan { q, .. }) => match q.front() {
                Some(Decision::EnvJobs { name: nm, n }) if nm == name => {
                    let n = *n;
                    q.pop_front();
                    n
                }
                _ => 0,
            },
        };
        self.env_jobs.insert(name.to_string(), n);
        self.stats.cores_asked += 1;
        self.event("env_jobs", n as u64, 0);
        self.trace.push(Decision::EnvJobs { name: name.to_string(), n });
        n
    }

    pub fn decide_cores(&mut self) -> u32 {
        // a property of the machine: the same answer for the whole execution
        if let Some(n) = self.cores {
            self.stats.cores_asked += 1;
            return n;
        }
        let n = self.decide_cores_once();
        self.cores = Some(n);
        n
    }

    fn decide_cores_once(&mut self) -> u32 {
        let n = match &mut self.mode {
            Mode::Random { aux, profile, .. } => {
                if profile.cover_iter.is_some() {
                    if profile.cover_cores != 0 {
                        profile.cover_cores
                    } else {
                        DEFAULT_CORES
                    }
                } else {
                    // half of the runs: the counts most machines report; the other half: anything
                    // from 1 to 128 (chunking arithmetic goes wrong at particular counts)
                    const C: [u32; 8] = [1, 2, 4, 4, 8, 8, 12, 16];
                    if aux.chance(1, 2) {
                        C[aux.below(C.len() as u64) as usize]
                    } else {
                        1 + aux.below(128) as u32
                    }
                }
            }
            Mode::Replay(ReplayPlan { q, .. }) => match q.front() {
                Some(Decision::Cores { n }) => {
                    let n = *n;
                    q.pop_front();
                    n
                }
                _ => {
                    self.diverged = true;
                    DEFAULT_CORES
                }
            },
        };
        self.stats.cores_asked += 1;
        self.event("cores", n as u64, 0);
        self.trace.push(Decision::Cores { n });
        n
    }

    /// A timed wait found nothing to receive. Does its deadline pass first?
    pub fn decide_timeout(&mut self) -> bool {
        let fired = match &mut self.mode {
            Mode::Random { aux, profile, .. } => profile.stall && aux.chance(1, 4),
            Mode::Replay(ReplayPlan { q, .. }) => match q.front() {
                Some(Decision::Timeout { fired }) => {
                    let f = *fired;
                    q.pop_front();
                    f
                }
                _ => {
                    self.diverged = true;
                    false
                }
            },
        };
        self.stats.timeouts_offered += 1;
        if fired {
            self.stats.timeouts_fired += 1;
            self.stalled = true;
            crate::isolate::child_fault_notice();
        }
        self.event("timeout", fired as u64, 0);
        self.trace.push(Decision::Timeout { fired });
        fired
    }

    /// At the first file read of a run: does one of its reads fail with EIO, and which?
    pub fn decide_read_fault(&mut self) {
        if self.read_fault_decided || self.hard.is_some() {
            return;
        }
        self.read_fault_decided = true;
        let at = match &mut self.mode {
            Mode::Random { aux, profile, .. } => {
                if profile.read_fault && profile.cover_iter.is_none() {
                    let at = if aux.chance(1, 2) { aux.below(4) } else { aux.below(720) };
                    // (round 16) a third of the read errors are persistent; decided from the index
                    // itself so that no further draw shifts what follows
                    if crate::rng::splitmix64(&mut (at ^ 0x7065_7273)) % 3 == 0 {
                        at | PERSISTENT_BIT
                    } else {
                        at
                    }
                } else {
                    NO_FAULT
                }
            }
            Mode::Replay(ReplayPlan { q, .. }) => match q.front() {
                Some(Decision::ReadFault { at }) => {
                    let a = *at;
                    q.pop_front();
                    a
                }
                _ => NO_FAULT,
            },
        };
        if at != NO_FAULT {
            self.hard = Some(HardPlan {
                kind: HardKind::ReadEio,
                at: at & !PERSISTENT_BIT,
                salt: if at & PERSISTENT_BIT != 0 { PERSISTENT_EIO } else { 0 },
            });
            self.gating_fault = true;
            self.event("read_fault_planned", at, 0);
            self.trace.push(Decision::ReadFault { at });
        }
    }

    /// At the first data write of a run: does the device the output goes to fill up, and after how
    /// many more bytes?
    pub fn decide_write_fault(&mut self) {
        if self.write_fault_decided {
            return;
        }
        self.write_fault_decided = true;
        if self.hard.is_some() && !self.gating_fault {
            return; // a run of the non-gating hard-fault exploration has its one fault already
        }
        if self.stat_fault_at.is_some() || self.spawn_fault_at.is_some() {
            return; // one hard fault per run
        }
        let at = match &mut self.mode {
            Mode::Random { profile, .. } => {
                if profile.write_fault != 0 && profile.cover_iter.is_none() {
                    // the size of the program's output under the default schedule (hint, set once
                    // per process before any seeded run): the mark falls in the first kilobyte,
                    // anywhere, or in the last 16 KiB (what a buffered writer still holds when
                    // the program is about to return)
                    let len = OUT_LEN_HINT[self.gen_index.min(1)].load(std::sync::atomic::Ordering::Relaxed).max(1);
                    let mut r = Rng::new(profile.write_fault);
                    match r.below(8) {
                        0..=2 => r.below(len.min(1024)),
                        3..=4 => r.below(len),
                        _ => len - 1 - r.below(len.min(16 * 1024)),
                    }
                } else {
                    NO_FAULT
                }
            }
            Mode::Replay(ReplayPlan { q, .. }) => match q.front() {
                Some(Decision::WriteFault { at }) => {
                    let a = *at;
                    q.pop_front();
                    a
                }
                _ => NO_FAULT,
            },
        };
        if at != NO_FAULT {
            self.out_budget = Some(at);
            self.event("write_fault_planned", at, 0);
            self.trace.push(Decision::WriteFault { at });
        }
    }

    /// A path-based metadata query (`stat`): does this one fail with EIO? Decided at the first
    /// query of a run; never in a run that has another hard fault.
    pub fn stat_fails_now(&mut self) -> bool {
        if !self.stat_fault_decided {
            self.stat_fault_decided = true;
            if self.hard.is_none() && self.out_budget.is_none() && self.spawn_fault_at.is_none() {
                let at = match &mut self.mode {
                    Mode::Random { profile, .. } => {
                        if profile.stat_fault != 0 && profile.cover_iter.is_none() {
                            let mut r = Rng::new(profile.stat_fault);
                            if r.chance(1, 2) {
                                r.below(4)
                            } else {
                                r.below(720)
                            }
                        } else {
                            NO_FAULT
                        }
                    }
                    Mode::Replay(ReplayPlan { q, .. }) => match q.front() {
                        Some(Decision::StatFault { at }) => {
                            let a = *at;
                            q.pop_front();
                            a
                        }
                        _ => NO_FAULT,
                    },
                };
                if at != NO_FAULT {
                    self.stat_fault_at = Some(at);
                    self.event("stat_fault_planned", at, 0);
                    self.trace.push(Decision::StatFault { at });
                }
            }
        }
        let idx = self.stats_seen;
        self.stats_seen += 1;
        if self.frozen || self.stat_faulted || self.stat_fault_at != Some(idx) {
            return false;
        }
        self.stat_faulted = true;
        self.stats.stat_faults_injected += 1;
        crate::isolate::child_fault_notice();
        self.event("stat_eio", idx, 0);
        true
    }

    /// A thread is about to be created: does this creation fail with EAGAIN? Decided at the first
    /// creation of a run; never in a run that has another hard fault.
    pub fn spawn_fails_now(&mut self) -> bool {
        if !self.spawn_fault_decided {
            self.spawn_fault_decided = true;
            if self.hard.is_none() && self.out_budget.is_none() && self.stat_fault_at.is_none() {
                let at = match &mut self.mode {
                    Mode::Random { profile, .. } => {
                        if profile.spawn_fault != 0 && profile.cover_iter.is_none() {
                            let mut r = Rng::new(profile.spawn_fault);
                            if r.chance(1, 2) {
                                r.below(4)
                            } else {
                                r.below(64)
                            }
                        } else {
                            NO_FAULT
                        }
                    }
                    Mode::Replay(ReplayPlan { q, .. }) => match q.front() {
                        Some(Decision::SpawnFault { at }) => {
                            let a = *at;
                            q.pop_front();
                            a
                        }
                        _ => NO_FAULT,
                    },
                };
                if at != NO_FAULT {
                    self.spawn_fault_at = Some(at);
                    self.event("spawn_fault_planned", at, 0);
                    self.trace.push(Decision::SpawnFault { at });
                }
            }
        }
        let idx = self.spawns_seen;
        self.spawns_seen += 1;
        if self.frozen || self.spawn_faulted || self.spawn_fault_at != Some(idx) {
            return false;
        }
        self.spawn_faulted = true;
        self.stats.spawn_faults_injected += 1;
        crate::isolate::child_fault_notice();
        self.event("spawn_eagain", idx, 0);
        true
    }

    /// The program hands `len` bytes to its output device (stdout or a file it writes). Returns
    /// how many of them the device takes and whether it is full now (the caller reports ENOSPC
    /// for what was not taken).
    pub fn admit_write(&mut self, len: usize) -> (usize, bool) {
        if self.frozen || len == 0 {
            return (len, false);
        }
        self.decide_write_fault();
        match self.out_budget {
            None => (len, false),
            Some(b) => {
                let a = (len as u64).min(b);
                self.out_budget = Some(b - a);
                if (a as usize) < len {
                    if !self.write_faulted {
                        self.stats.write_faults_injected += 1;
                    }
                    self.write_faulted = true;
                    crate::isolate::child_fault_notice();
                    self.event("enospc", a, len as u64);
                    (a as usize, true)
                } else {
                    (len, false)
                }
            }
        }
    }

    /// Is the optional external tool `name` installed on this simulated machine?
    pub fn decide_program(&mut self, name: &str) -> bool {
        let available = match &mut self.mode {
            Mode::Random { aux, profile, .. } => profile.cover_iter.is_some() || !aux.chance(1, 4),
            Mode::Replay(ReplayPlan { q, .. }) => match q.front() {
                Some(Decision::Program { available, .. }) => {
                    let a = *available;
                    q.pop_front();
                    a
                }
                _ => {
                    self.diverged = true;
                    true
                }
            },
        };
        self.stats.programs_spawned += 1;
        if !available {
            self.stats.programs_missing += 1;
            self.missing_program = true;
            crate::isolate::child_fault_notice();
        }
        self.event("program", available as u64, 0);
        self.trace.push(Decision::Program {
            name: name.to_string(),
            available,
        });
        available
    }

    /// Simulated wall clock: strictly increasing, advanced by a seeded amount per read.
    pub fn read_clock(&mut self) -> u64 {
        let step = match &mut self.mode {
            Mode::Random { aux, .. } => 1_000 + aux.below(5_000_000),
            Mode::Replay(_) => 1_000_000,
        };
        self.clock_ns += step;
        self.stats.clock_reads += 1;
        self.clock_ns
    }

    /// Which task runs next? `runnable` is non-empty and sorted by task id.
    pub fn decide_sched(&mut self, runnable: &[u32], current: Option<u32>, yielding: bool) -> u32 {
        let step = self.stats.sched_steps;
        self.stats.sched_steps += 1;
        self.stats.max_tasks = self.stats.max_tasks.max(runnable.iter().copied().max().unwrap_or(0) as u64 + 1);
        let cur_runnable = current.map(|c| runnable.contains(&c)).unwrap_or(false);
        if yielding {
            self.yield_probe = Some(runnable.iter().any(|t| Some(*t) != current));
        }
        // a yielding task is polling: it is not offered again while somebody else can run
        let without_yielder: Vec<u32>;
        let runnable: &[u32] = if yielding && runnable.iter().any(|t| Some(*t) != current) {
            without_yielder = runnable.iter().copied().filter(|t| Some(*t) != current).collect();
            &without_yielder
        } else {
            runnable
        };
        let cur_runnable = cur_runnable && runnable.contains(&current.unwrap());
        // The default choice (no preemption, else lowest id) must be fair among pollers: with
        // "lowest id other than the yielder" two polling threads hand the CPU to each other for
        // ever while the workers they wait for starve. A task that yielded is therefore passed
        // over by the default until every other runnable task had its turn. (The seeded policies
        // below choose among all of `runnable`; they are fair with probability one.)
        if yielding {
            if let Some(c) = current {
                self.yielded.insert(c);
            }
        }
        let default = if cur_runnable && !yielding {
            current.unwrap()
        } else {
            match runnable.iter().find(|t| !self.yielded.contains(t)) {
                Some(t) => *t,
                None => {
                    // everybody who can run has yielded since its last turn: a new round
                    self.yielded.clear();
                    if yielding {
                        if let Some(c) = current {
                            self.yielded.insert(c);
                        }
                    }
                    runnable[0]
                }
            }
        };
        let pick = if runnable.len() == 1 {
            runnable[0]
        } else {
            self.stats.sched_choice_points += 1;
            match &mut self.mode {
                Mode::Random { aux, profile, .. } => match profile.sched {
                    SchedMode::Default => default,
                    SchedMode::Uniform => runnable[aux.below(runnable.len() as u64) as usize],
                    SchedMode::Sticky(permille) => {
                        if cur_runnable && !yielding && !aux.chance(permille as u64, 1000) {
                            default
                        } else {
                            runnable[aux.below(runnable.len() as u64) as usize]
                        }
                    }
                    SchedMode::Pct { depth, horizon } => {
                        let st = self.pct.get_or_insert_with(|| {
                            let mut change_at: Vec<u64> = (0..depth).map(|_| aux.below(horizon as u64)).collect();
                            change_at.sort();
                            PctState {
                                prio: BTreeMap::new(),
                                change_at,
                                next_low: 0,
                            }
                        });
                        for t in runnable {
                            if !st.prio.contains_key(t) {
                                // fresh tasks get a random high priority
                                let p = (1 << 32) + aux.below(1 << 31);
                                st.prio.insert(*t, p);
                            }
                        }
                        if st.change_at.contains(&step) || yielding {
                            if let Some(c) = current {
                                st.next_low += 1;
                                let low = (1u64 << 20) - st.next_low;
                                st.prio.insert(c, low);
                            }
                        }
                        *runnable.iter().max_by_key(|t| (st.prio[*t], u32::MAX - **t)).unwrap()
                    }
                },
                Mode::Replay(plan) => match plan.sched.get(&step) {
                    Some(t) if runnable.contains(t) => *t,
                    Some(_) => {
                        self.diverged = true;
                        default
                    }
                    None => default,
                },
            }
        };
        if pick != default {
            self.stats.sched_deviations += 1;
            self.trace.push(Decision::Sched { at: step, task: pick });
        }
        if current.is_some() && Some(pick) != current {
            self.stats.context_switches += 1;
        }
        self.yielded.remove(&pick);
        self.sched_digest.u64(pick as u64);
        if runnable.len() > 1 {
            self.event("sched", step, pick as u64);
        }
        pick
    }
}

/// Replace the entries a spotlight order moved to the front/back by stand-out entries.
fn respotlight(aux: &mut Rng, base: Vec<u32>, mode: DirMode, special: &[u32]) -> Vec<u32> {
    let DirMode::Spotlight { k, front, .. } = mode else { return base };
    let k = (k as usize).min(base.len()).min(special.len());
    let mut picks: Vec<u32> = vec![];
    while picks.len() < k {
        let c = special[aux.below(special.len() as u64) as usize];
        if !picks.contains(&c) {
            picks.push(c);
        }
    }
    let mut rest: Vec<u32> = base.into_iter().filter(|x| !picks.contains(x)).collect();
    if front {
        picks.extend(rest);
        picks
    } else {
        rest.extend(picks);
        rest
    }
}

pub fn gen_dir_order(rng: &mut Rng, mode: DirMode, n: usize, special: &[u32]) -> Vec<u32> {
    let mut v: Vec<u32> = (0..n as u32).collect();
    if n < 2 {
        return v;
    }
    match mode {
        DirMode::Sorted => {}
        DirMode::Reverse => v.reverse(),
        DirMode::Shuffle => rng.shuffle(&mut v),
        DirMode::Spotlight { k, front, shuffled } => {
            if shuffled {
                rng.shuffle(&mut v);
            }
            let k = (k as usize).min(n);
            let mut picked: Vec<u32> = vec![];
            for _ in 0..k {
                let i = rng.below(v.len() as u64) as usize;
                picked.push(v.remove(i));
            }
            if front {
                picked.extend(v);
                v = picked;
            } else {
                v.extend(picked);
            }
        }
        DirMode::Cluster { k, shuffled } => {
            if shuffled {
                rng.shuffle(&mut v);
            }
            let k = (k as usize).min(n);
            let mut picked: Vec<u32> = vec![];
            while picked.len() < k {
                // each member: a stand-out entry half of the time (when the directory has any)
                let c = if !special.is_empty() && rng.chance(1, 2) {
                    special[rng.below(special.len() as u64) as usize]
                } else {
                    rng.below(n as u64) as u32
                };
                if !picked.contains(&c) {
                    picked.push(c);
                }
            }
            v.retain(|x| !picked.contains(x));
            let at = rng.below(v.len() as u64 + 1) as usize;
            for (j, p) in picked.into_iter().enumerate() {
                v.insert(at + j, p);
            }
        }
        DirMode::NearSorted { swaps } => {
            for _ in 0..swaps {
                let i = rng.below(n as u64 - 1) as usize;
                v.swap(i, i + 1);
            }
        }
        DirMode::Rotated => {
            let r = rng.below(n as u64) as usize;
            v.rotate_left(r);
        }
        DirMode::Cover { index, reverse } => v = zigzag(n, index, reverse),
    }
    v
}

#[cfg(test)]
mod tests {
    use super::*;
    use std::collections::HashSet;

    #[test]
    fn zigzag_family_covers_every_ordered_adjacency() {
        for n in [2usize, 3, 4, 5, 6, 7, 8, 9, 16, 17, 50, 51] {
            let mut adj: HashSet<(u32, u32)> = HashSet::new();
            let mut first = HashSet::new();
            let mut last = HashSet::new();
            for j in 0..zigzag_family_size(n) {
                let p = zigzag(n, j / 2, j % 2 == 1);
                let mut sorted = p.clone();
                sorted.sort();
                assert_eq!(sorted, (0..n as u32).collect::<Vec<_>>(), "n={} j={} not a permutation", n, j);
                for w in p.windows(2) {
                    adj.insert((w[0], w[1]));
                }
                first.insert(p[0]);
                last.insert(*p.last().unwrap());
            }
            assert_eq!(adj.len(), n * (n - 1), "n={}: not every ordered pair is adjacent", n);
            if n % 2 == 0 {
                assert_eq!(first.len(), n);
                assert_eq!(last.len(), n);
            }
        }
    }
}
