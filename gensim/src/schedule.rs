//! JSON form of an explicit schedule (the replay file's core). Directory orders are stored by
//! entry *name*, so the file is readable and independent of the PRNG.

use crate::sim::describe_moves;
use crate::world::{Decision, FsImage, Tweak};
use serde_json::{json, Value};

pub fn tweak_str(t: Tweak) -> String {
    match t {
        Tweak::None => "none".into(),
        Tweak::Reverse => "reverse".into(),
        Tweak::Rotate(p) => format!("rotate:{}", p),
        Tweak::Zigzag { index, reverse } => format!("zigzag:{}:{}", index, if reverse { "rev" } else { "fwd" }),
    }
}

fn parse_tweak(s: &str) -> Result<Tweak, String> {
    match s {
        "none" => Ok(Tweak::None),
        "reverse" => Ok(Tweak::Reverse),
        o if o.starts_with("zigzag:") => {
            let parts: Vec<&str> = o.split(':').collect();
            if parts.len() != 3 {
                return Err(format!("bad tweak {:?}", o));
            }
            Ok(Tweak::Zigzag {
                index: parts[1].parse().map_err(|_| format!("bad tweak {:?}", o))?,
                reverse: parts[2] == "rev",
            })
        }
        o => match o.strip_prefix("rotate:") {
            Some(n) => n.parse().map(Tweak::Rotate).map_err(|_| format!("bad tweak {:?}", o)),
            None => Err(format!("bad tweak {:?}", o)),
        },
    }
}

fn dir_names(img: &FsImage, path: &str) -> Vec<String> {
    img.dirs
        .get(path)
        .map(|v| v.iter().map(|(n, _)| n.clone()).collect())
        .unwrap_or_default()
}

pub fn to_json(s: &[Decision], img: &FsImage) -> Value {
    Value::Array(
        s.iter()
            .map(|d| match d {
                Decision::ReadDir { path, order } => {
                    let names = dir_names(img, path);
                    let default = d.is_default();
                    let moves: Vec<Value> = describe_moves(order, &names)
                        .into_iter()
                        .map(|(n, i)| json!({"entry": n, "returned_at_index": i}))
                        .collect();
                    let mut o = json!({
                        "op": "read_dir",
                        "path": path,
                        "entries": order.len(),
                        "sorted": default,
                        "displaced_from_sorted": moves,
                    });
                    if !default {
                        o["order"] = Value::Array(
                            order
                                .iter()
                                .map(|i| Value::String(names.get(*i as usize).cloned().unwrap_or_else(|| format!("#{}", i))))
                                .collect(),
                        );
                    }
                    o
                }
                Decision::Container { kind, k0, k1, tweak } => json!({
                    "op": "container",
                    "kind": kind.to_string(),
                    "k0": k0,
                    "k1": k1,
                    "tweak": tweak_str(*tweak),
                }),
                Decision::Open { path, io_seed } => json!({
                    "op": "open",
                    "path": path,
                    "io_seed": io_seed,
                }),
                Decision::Sched { at, task } => {
                    if *task == crate::world::NO_DEVIATION {
                        json!({ "op": "sched", "at_step": at, "run_task": "default" })
                    } else {
                        json!({ "op": "sched", "at_step": at, "run_task": task })
                    }
                }
                Decision::Cores { n } => json!({ "op": "available_parallelism", "n": n }),
                Decision::Timeout { fired } => json!({ "op": "timed_wait", "deadline_passed": fired }),
                Decision::Program { name, available } => json!({ "op": "external_program", "name": name, "installed": available }),
                Decision::FdLimit { n } => json!({ "op": "open_file_limit", "ulimit_n": n }),
                Decision::WriteFault { at } => {
                    if *at == crate::world::NO_FAULT {
                        json!({ "op": "disk_full", "errno": "none" })
                    } else {
                        json!({ "op": "disk_full", "errno": "ENOSPC", "after_bytes": at })
                    }
                }
                Decision::EnvJobs { name, n } => {
                    if *n == 0 {
                        json!({ "op": "env_var", "name": name, "set": false })
                    } else {
                        json!({ "op": "env_var", "name": name, "set": true, "value": n.to_string() })
                    }
                }
                Decision::SpawnFault { at } => {
                    if *at == crate::world::NO_FAULT {
                        json!({ "op": "thread_spawn_error", "errno": "none" })
                    } else {
                        json!({ "op": "thread_spawn_error", "errno": "EAGAIN", "at_spawn": at })
                    }
                }
                Decision::StatFault { at } => {
                    if *at == crate::world::NO_FAULT {
                        json!({ "op": "stat_error", "errno": "none" })
                    } else {
                        json!({ "op": "stat_error", "errno": "EIO", "at_query": at })
                    }
                }
                Decision::ReadFault { at } => {
                    if *at == crate::world::NO_FAULT {
                        json!({ "op": "read_error", "errno": "none" })
                    } else {
                        json!({ "op": "read_error", "errno": "EIO", "at_read": at & !crate::world::PERSISTENT_BIT, "persistent": at & crate::world::PERSISTENT_BIT != 0 })
                    }
                }
            })
            .collect(),
    )
}

pub fn from_json(v: &Value, img: &FsImage) -> Result<Vec<Decision>, String> {
    let arr = v.as_array().ok_or("schedule is not an array")?;
    let mut out = vec![];
    for e in arr {
        match e["op"].as_str() {
            Some("read_dir") => {
                let path = e["path"].as_str().ok_or("read_dir without path")?.to_string();
                let n = e["entries"].as_u64().ok_or("read_dir without entries")? as usize;
                let order: Vec<u32> = if e["sorted"].as_bool() == Some(true) {
                    (0..n as u32).collect()
                } else {
                    // The order is stored by entry name. If the data tree has changed since the file
                    // was recorded (entries added or removed: the replay then describes another
                    // tree and is not expected to reproduce), the entries that still exist keep
                    // their relative order and new ones follow in sorted order.
                    let names = dir_names(img, &path);
                    let mut o: Vec<u32> = vec![];
                    let mut missing = 0usize;
                    for x in e["order"].as_array().ok_or("read_dir without order")? {
                        let name = x.as_str().ok_or("order entry is not a string")?;
                        match names.iter().position(|n| n == name) {
                            Some(idx) => o.push(idx as u32),
                            None => missing += 1,
                        }
                    }
                    let mut unlisted = 0usize;
                    for i in 0..names.len() as u32 {
                        if !o.contains(&i) {
                            o.push(i);
                            unlisted += 1;
                        }
                    }
                    if missing + unlisted > 0 {
                        eprintln!(
                            "note: directory {} is not the one this replay file was recorded on ({} recorded entries are gone, {} entries are new)",
                            path, missing, unlisted
                        );
                    }
                    o
                };
                out.push(Decision::ReadDir { path, order });
            }
            Some("container") => {
                let kind = e["kind"].as_str().and_then(|s| s.chars().next()).ok_or("container without kind")?;
                out.push(Decision::Container {
                    kind,
                    k0: e["k0"].as_u64().ok_or("container without k0")?,
                    k1: e["k1"].as_u64().ok_or("container without k1")?,
                    tweak: parse_tweak(e["tweak"].as_str().unwrap_or("none"))?,
                });
            }
            Some("open") => out.push(Decision::Open {
                path: e["path"].as_str().ok_or("open without path")?.to_string(),
                io_seed: e["io_seed"].as_u64().ok_or("open without io_seed")?,
            }),
            Some("sched") => out.push(Decision::Sched {
                at: e["at_step"].as_u64().ok_or("sched without at_step")?,
                task: e["run_task"].as_u64().map(|t| t as u32).unwrap_or(crate::world::NO_DEVIATION),
            }),
            Some("available_parallelism") => out.push(Decision::Cores {
                n: e["n"].as_u64().ok_or("available_parallelism without n")? as u32,
            }),
            Some("timed_wait") => out.push(Decision::Timeout {
                fired: e["deadline_passed"].as_bool().unwrap_or(false),
            }),
            Some("external_program") => out.push(Decision::Program {
                name: e["name"].as_str().unwrap_or("").to_string(),
                available: e["installed"].as_bool().unwrap_or(true),
            }),
            Some("open_file_limit") => out.push(Decision::FdLimit {
                n: e["ulimit_n"].as_u64().unwrap_or(crate::world::DEFAULT_FD_LIMIT as u64) as u32,
            }),
            Some("read_error") => {
                if let Some(at) = e["at_read"].as_u64() {
                    let p = if e["persistent"].as_bool() == Some(true) { crate::world::PERSISTENT_BIT } else { 0 };
                    out.push(Decision::ReadFault { at: at | p });
                }
            }
            Some("env_var") => out.push(Decision::EnvJobs {
                name: e["name"].as_str().unwrap_or("").to_string(),
                n: e["value"].as_str().and_then(|s| s.parse().ok()).unwrap_or(0),
            }),
            Some("thread_spawn_error") => {
                if let Some(at) = e["at_spawn"].as_u64() {
                    out.push(Decision::SpawnFault { at });
                }
            }
            Some("stat_error") => {
                if let Some(at) = e["at_query"].as_u64() {
                    out.push(Decision::StatFault { at });
                }
            }
            Some("disk_full") => {
                if let Some(at) = e["after_bytes"].as_u64() {
                    out.push(Decision::WriteFault { at });
                }
            }
            o => return Err(format!("unknown schedule op {:?}", o)),
        }
    }
    Ok(out)
}
