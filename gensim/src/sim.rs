//! One simulated run, its verdict, and the schedule minimiser.

use crate::oracle::{check_output, Violation};
use crate::rng::{run_seed, Rng};
use crate::rsparse::Val;
use crate::world::{self, Decision, FsImage, IterRecord, Mode, Profile, RunStats, Tweak, World};
use std::collections::BTreeMap;
use std::panic::{catch_unwind, AssertUnwindSafe};
use std::sync::Arc;

#[derive(Clone, Copy, Debug, PartialEq, Eq, PartialOrd, Ord, Hash)]
pub enum Gen {
    Layout,
    Likely,
}

impl Gen {
    pub fn name(self) -> &'static str {
        match self {
            Gen::Layout => "layout",
            Gen::Likely => "likely",
        }
    }
    pub fn program(self) -> &'static str {
        match self {
            Gen::Layout => "unic-langid-impl/src/bin/generate_layout.rs",
            Gen::Likely => "unic-langid-impl/src/bin/generate_likelysubtags.rs",
        }
    }
    pub fn stream(self) -> u64 {
        match self {
            Gen::Layout => 1,
            Gen::Likely => 2,
        }
    }
    pub fn parse(s: &str) -> Option<Gen> {
        match s {
            "layout" => Some(Gen::Layout),
            "likely" => Some(Gen::Likely),
            _ => None,
        }
    }
}

pub struct RunResult {
    pub gen: Gen,
    pub profile: Option<Profile>,
    pub trace: Vec<Decision>,
    pub out: String,
    pub log_digest: u64,
    pub events: u64,
    pub stats: RunStats,
    pub iter_orders: Vec<IterRecord>,
    pub dir_orders: Vec<(String, Vec<String>)>,
    pub panic: Option<String>,
    /// `process::exit(code)` called by the generator
    pub exit_code: Option<i32>,
    pub hard_fired: bool,
    /// a deadline passed (stalled-machine fault) during this run
    pub stalled: bool,
    /// ran under the shuttle engine (the generator uses threads or sync primitives)
    pub under_shuttle: bool,
    /// digest of the sequence of scheduled task ids
    pub sched_digest: u64,
    pub diverged: bool,
    pub leftover_decisions: usize,
    pub verbose_log: Option<Vec<String>>,
    /// the run was cut short at a crash point (session histories only)
    pub crashed: Option<world::CrashKind>,
    pub torn_write: bool,
    /// crash points (file-system mutations and prints) the run passed
    pub crash_points: u64,
    pub fs_mutations: u64,
    pub metadata_queries: u64,
    /// what the run leaves behind for the next run of its session
    pub disk_after: world::Disk,
    /// the second instance that ran while this one was running (sessions only)
    pub intruder: Option<Box<RunResult>>,
    pub company_ambiguous: bool,
    /// inode tables at the end of the run (for a second instance's host to take over)
    pub inodes_after: Option<world::Inodes>,
    /// content of files that were unlinked while somebody held them open
    pub orphans_after: BTreeMap<u64, Vec<u8>>,
}

/// What a run of a session starts from and where it is cut short.
#[derive(Clone, Default)]
pub struct RunEnv {
    pub disk: Option<world::Disk>,
    pub crash: Option<world::CrashPlan>,
    pub intruder: Option<world::IntruderPlan>,
    /// inode tables of the machine (a second instance shares them with the running one)
    pub inodes: Option<world::Inodes>,
    /// the disk is already full when this process starts (a second instance started by a process
    /// that has just met ENOSPC: one disk)
    pub disk_full: bool,
}

/// A second instance starts now, on the disk as the running instance has left it so far, and runs
/// to completion before the running instance goes on (called from inside a seam of the running
/// instance; neither instance uses threads).
pub fn run_intruder(plan: world::IntruderPlan) {
    let mut outer = world::uninstall();
    let disk = world::Disk {
        files: outer.written.clone(),
        mtimes: outer.mtimes.clone(),
        removed: outer.removed.clone(),
        clock_ns: outer.clock_ns + 1_000,
        mtime_seed: outer.mtime_seed,
        epoch: outer.epoch + 100,
    };
    let gen = if plan.gen_id == 0 { Gen::Layout } else { Gen::Likely };
    // process-private (unlinked but open) files of the running instance stay out of sight
    let mut disk = disk;
    let private: Vec<(String, Vec<u8>)> = outer.written.iter().filter(|(k, _)| k.starts_with("<orphan:")).map(|(k, v)| (k.clone(), v.clone())).collect();
    disk.files.retain(|k, _| !k.starts_with("<orphan:"));
    let env = RunEnv {
        disk: Some(disk),
        crash: plan.kill_at.map(|at| world::CrashPlan {
            at,
            kind: world::CrashKind::Kill,
            salt: plan.at ^ 0x6b69_6c6c,
        }),
        intruder: None,
        inodes: Some(outer.inodes.clone()),
        disk_full: outer.write_faulted,
    };
    let image = outer.image.clone();
    let outer_panic = world::PANIC_INFO.with(|p| p.borrow_mut().take());
    let r = execute_once(gen, &image, plan.mode, false, false, None, false, &env);
    world::PANIC_INFO.with(|p| *p.borrow_mut() = outer_panic);
    // (round 17) A second instance that was killed half-way through rewriting a file the first
    // instance holds open for writing (both write the table file in place: control `s6`) leaves a
    // file no single program is answerable for - what the first instance then completes is a
    // mixture of two writers' bytes. That combination is not judged.
    if r.crashed.is_some() {
        let held: Vec<String> = outer
            .inodes
            .open
            .iter()
            .filter(|(_, c)| **c > 0)
            .filter_map(|(i, _)| outer.inodes.names.get(i).cloned().flatten())
            .collect();
        if held.iter().any(|n| r.disk_after.files.get(n) != outer.written.get(n)) {
            outer.company_ambiguous = true;
        }
    }
    // what the second instance did to the disk is what the first one finds when it goes on
    outer.written = r.disk_after.files.clone();
    for (k, v) in private {
        outer.written.insert(k, v);
    }
    if let Some(ino) = &r.inodes_after {
        // names may have moved under the running instance's open handles (the second instance
        // counted them as open all along and has closed its own)
        outer.inodes = ino.clone();
        // its locks died with it
        let me = outer.pid;
        outer.inodes.flocks.retain(|_, (p, _, _)| *p == me);
        // a file the running instance holds open that the second one unlinked or replaced lives
        // on, nameless, for those handles
        for (i, c) in &r.orphans_after {
            if matches!(outer.inodes.names.get(i), Some(None)) {
                outer.written.insert(world::orphan_key(*i), c.clone());
            }
        }
    }
    outer.mtimes = r.disk_after.mtimes.clone();
    outer.removed = r.disk_after.removed.clone();
    outer.clock_ns = outer.clock_ns.max(r.disk_after.clock_ns) + 1_000;
    // one disk: if it filled up under the second instance it is full for the running one too
    // (control `s6`, which writes the table file in place: the second instance truncated the
    // file, met ENOSPC after 184 bytes and gave up loudly; the running instance went on writing at
    // its own offset as if there were room, and "completed" with a hole in the table)
    if r.stats.write_faults_injected > 0 {
        outer.write_fault_decided = true;
        outer.out_budget = Some(0);
    }
    outer.event("second_instance", r.log_digest, r.events);
    outer.intruder_result = Some(Box::new(r));
    world::install(outer);
}

/// Install the process-wide panic hook once: inside a simulated run a panic is recorded
/// (message + location) instead of printed.
pub fn install_panic_hook() {
    let default = std::panic::take_hook();
    std::panic::set_hook(Box::new(move |info| {
        if world::IN_SIM.with(|f| f.get()) {
            let msg = if let Some(s) = info.payload().downcast_ref::<&str>() {
                s.to_string()
            } else if let Some(s) = info.payload().downcast_ref::<String>() {
                s.clone()
            } else {
                "<non-string panic payload>".to_string()
            };
            // generator sources are compiled from a copy in OUT_DIR: report them by file name
            let loc = info
                .location()
                .map(|l| {
                    let f = l.file();
                    let f = match ["/out/layout/", "/out/likely/"].iter().find_map(|m| f.rfind(m).map(|i| i + m.len())) {
                        Some(i) => format!("unic-langid-impl/src/bin/{}", &f[i..]),
                        None => f.to_string(),
                    };
                    format!("{}:{}", f, l.line())
                })
                .unwrap_or_else(|| "<unknown>".into());
            if std::env::var_os("GENSIM_DEBUG_PANICS").is_some() {
                eprintln!("[in-sim panic] {} at {}\n{}", msg, loc, std::backtrace::Backtrace::force_capture());
            }
            world::PANIC_INFO.with(|p| *p.borrow_mut() = Some(format!("{} at {}", msg, loc)));
        } else {
            default(info);
        }
    }));
}

pub fn execute(gen: Gen, image: &Arc<FsImage>, mode: Mode, collect: bool, verbose: bool) -> RunResult {
    execute_with(gen, image, mode, collect, verbose, None)
}

/// One run of a session: starts on the disk earlier runs left behind, may be cut short.
pub fn execute_env(gen: Gen, image: &Arc<FsImage>, mode: Mode, env: &RunEnv, verbose: bool) -> RunResult {
    execute_full(gen, image, mode, false, verbose, None, env)
}

/// Set once a generator was seen to use threads or sync primitives: from then on every run of this
/// process executes under the shuttle engine (a run is the same function of its seed either way;
/// programs without threads have exactly one schedule).
pub static USE_SHUTTLE: std::sync::atomic::AtomicBool = std::sync::atomic::AtomicBool::new(false);

fn run_generator(gen: Gen) {
    match gen {
        Gen::Layout => crate::gens::layout::__gensim_entry(),
        Gen::Likely => crate::gens::likely::__gensim_entry(),
    }
}

/// The simulator's thread scheduler, plugged into the shuttle engine: every choice is delegated to
/// the run's `World` (seeded policy or explicit schedule), which also records it.
struct SimSched {
    started: bool,
}

impl shuttle::scheduler::Scheduler for SimSched {
    fn new_execution(&mut self) -> Option<shuttle::scheduler::Schedule> {
        if self.started {
            None
        } else {
            self.started = true;
            Some(shuttle::scheduler::Schedule::new(0))
        }
    }
    fn next_task(
        &mut self,
        runnable: &[&shuttle::scheduler::Task],
        current: Option<shuttle::scheduler::TaskId>,
        is_yielding: bool,
    ) -> Option<shuttle::scheduler::TaskId> {
        let mut ids: Vec<u32> = runnable.iter().map(|t| usize::from(t.id()) as u32).collect();
        ids.sort_unstable();
        let cur = current.map(|c| usize::from(c) as u32);
        let pick = world::with(|w| w.decide_sched(&ids, cur, is_yielding));
        runnable
            .iter()
            .find(|t| usize::from(t.id()) as u32 == pick)
            .map(|t| t.id())
    }
    fn next_u64(&mut self) -> u64 {
        0x5eed
    }
}

fn shuttle_config() -> shuttle::Config {
    let mut cfg = shuttle::Config::new();
    cfg.stack_size = 8 << 20;
    cfg.failure_persistence = shuttle::FailurePersistence::None;
    cfg.max_steps = shuttle::MaxSteps::FailAfter(3_000_000);
    cfg.silence_warnings = true;
    cfg
}

/// (round 16) programs catch panics and go on: the engine must not take the first panic for the
/// end of the execution (vendor/shuttle-engine/README.verif.md)
pub fn survivable_panics() {
    shuttle_engine::runtime::execution::SURVIVABLE_PANICS.store(true, std::sync::atomic::Ordering::SeqCst);
}

/// Make shuttle install its process-wide panic hook now (it does so once, at its first
/// execution), so that the simulator's own hook, installed afterwards, sits on top of it.
pub fn prime_shuttle() {
    survivable_panics();
    let runner = shuttle::Runner::new(SimSchedNoWorld { started: false }, shuttle_config());
    runner.run(|| {});
}

struct SimSchedNoWorld {
    started: bool,
}
impl shuttle::scheduler::Scheduler for SimSchedNoWorld {
    fn new_execution(&mut self) -> Option<shuttle::scheduler::Schedule> {
        if self.started {
            None
        } else {
            self.started = true;
            Some(shuttle::scheduler::Schedule::new(0))
        }
    }
    fn next_task(
        &mut self,
        runnable: &[&shuttle::scheduler::Task],
        _current: Option<shuttle::scheduler::TaskId>,
        _is_yielding: bool,
    ) -> Option<shuttle::scheduler::TaskId> {
        runnable.first().map(|t| t.id())
    }
    fn next_u64(&mut self) -> u64 {
        0
    }
}

// ---------------------------------------------------------------------------------------------
// run registry (watchdog): which seeded run is each worker executing, and since when
// ---------------------------------------------------------------------------------------------
pub static RUNS_DONE: std::sync::atomic::AtomicU64 = std::sync::atomic::AtomicU64::new(0);

#[derive(Clone, Debug)]
pub struct RunLabel {
    pub gen: Gen,
    pub batch: &'static str,
    pub seed: u64,
    pub run: u64,
}

thread_local! {
    static LABEL: std::cell::RefCell<Option<RunLabel>> = const { std::cell::RefCell::new(None) };
    static SLOT: std::cell::Cell<usize> = const { std::cell::Cell::new(usize::MAX) };
}

fn active() -> &'static std::sync::Mutex<Vec<Option<(std::time::Instant, RunLabel)>>> {
    static A: std::sync::OnceLock<std::sync::Mutex<Vec<Option<(std::time::Instant, RunLabel)>>>> = std::sync::OnceLock::new();
    A.get_or_init(|| std::sync::Mutex::new(Vec::new()))
}

/// Tell the watchdog what the next `execute` on this thread is (seeded runs only).
pub fn set_label(l: Option<RunLabel>) {
    LABEL.with(|c| *c.borrow_mut() = l);
}

fn enter_run(gen: Gen) {
    if crate::isolate::IN_CHILD.load(std::sync::atomic::Ordering::Relaxed) {
        return; // the registry's lock may have been held by another thread of the parent
    }
    // runs the batches did not label (probe, samples, minimiser, replays) are watched as well
    let l = LABEL.with(|c| c.borrow().clone()).unwrap_or(RunLabel {
        gen,
        batch: "internal",
        seed: 0,
        run: 0,
    });
    let mut a = active().lock().unwrap_or_else(|e| e.into_inner());
    let mut slot = SLOT.with(|s| s.get());
    if slot == usize::MAX {
        slot = a.len();
        a.push(None);
        SLOT.with(|s| s.set(slot));
    }
    a[slot] = Some((std::time::Instant::now(), l));
}

fn leave_run() {
    if crate::isolate::IN_CHILD.load(std::sync::atomic::Ordering::Relaxed) {
        return;
    }
    RUNS_DONE.fetch_add(1, std::sync::atomic::Ordering::Relaxed);
    let slot = SLOT.with(|s| s.get());
    if slot != usize::MAX {
        let mut a = active().lock().unwrap_or_else(|e| e.into_inner());
        a[slot] = None;
    }
}

/// the labelled run that has been executing for longer than `limit`, if any
pub fn overdue(limit: std::time::Duration) -> Option<(RunLabel, std::time::Duration)> {
    let a = active().lock().unwrap_or_else(|e| e.into_inner());
    a.iter()
        .flatten()
        .map(|(t, l)| (l.clone(), t.elapsed()))
        .filter(|(_, d)| *d > limit)
        .max_by_key(|(_, d)| *d)
}

const NEEDS_SHUTTLE: &str = "Shuttle primitive outside of a Shuttle test";

pub fn execute_with(
    gen: Gen,
    image: &Arc<FsImage>,
    mode: Mode,
    collect: bool,
    verbose: bool,
    hard: Option<world::HardPlan>,
) -> RunResult {
    execute_full(gen, image, mode, collect, verbose, hard, &RunEnv::default())
}

fn execute_full(
    gen: Gen,
    image: &Arc<FsImage>,
    mode: Mode,
    collect: bool,
    verbose: bool,
    hard: Option<world::HardPlan>,
    env: &RunEnv,
) -> RunResult {
    use std::sync::atomic::Ordering;
    if crate::isolate::ISOLATE.load(Ordering::Relaxed) && !crate::isolate::IN_CHILD.load(Ordering::Relaxed) {
        // the program keeps process-wide state: every execution gets a process of its own
        let profile = match &mode {
            Mode::Random { profile, .. } => Some(*profile),
            Mode::Replay(_) => None,
        };
        loop {
            let shuttle_before = USE_SHUTTLE.load(Ordering::Relaxed);
            let m = mode.clone();
            let out = crate::isolate::run_in_child(gen, || execute_in_this_process(gen, image, m, collect, verbose, hard, env, shuttle_before));
            match out {
                crate::isolate::Outcome::Done(mut r) => {
                    if !shuttle_before && matches!(&r.panic, Some(p) if p.contains(NEEDS_SHUTTLE)) {
                        // the program uses threads: from now on every child runs under the engine
                        USE_SHUTTLE.store(true, Ordering::Relaxed);
                        continue;
                    }
                    r.profile = profile;
                    RUNS_DONE.fetch_add(1, Ordering::Relaxed);
                    return r;
                }
                crate::isolate::Outcome::Hung(secs) => {
                    return failed_result(gen, profile, format!("no-termination: the run did not finish within {} s of wall clock and was killed at {}:0", secs, gen.program()));
                }
                crate::isolate::Outcome::DiedUnderFault(how) => {
                    let mut r = failed_result(gen, profile, format!("the generator process died without a result ({}) after an injected fault at {}:0", how, gen.program()));
                    // a loud failure under a fault: not judged (DESIGN §4.4)
                    r.stalled = true;
                    return r;
                }
                crate::isolate::Outcome::Died(how) => {
                    return failed_result(gen, profile, format!("the generator process died without a result ({}) at {}:0", how, gen.program()));
                }
            }
        }
    }
    execute_in_this_process(gen, image, mode, collect, verbose, hard, env, USE_SHUTTLE.load(Ordering::Relaxed))
}

fn failed_result(gen: Gen, profile: Option<Profile>, panic: String) -> RunResult {
    RunResult {
        gen,
        profile,
        trace: vec![],
        out: String::new(),
        log_digest: 0,
        events: 0,
        stats: RunStats::default(),
        iter_orders: vec![],
        dir_orders: vec![],
        panic: Some(panic),
        exit_code: None,
        hard_fired: false,
        stalled: false,
        under_shuttle: false,
        sched_digest: 0,
        diverged: false,
        leftover_decisions: 0,
        verbose_log: None,
        crashed: None,
        torn_write: false,
        crash_points: 0,
        fs_mutations: 0,
        metadata_queries: 0,
        disk_after: world::Disk::default(),
        intruder: None,
        company_ambiguous: false,
        inodes_after: None,
        orphans_after: BTreeMap::new(),
    }
}

#[allow(clippy::too_many_arguments)]
fn execute_in_this_process(
    gen: Gen,
    image: &Arc<FsImage>,
    mode: Mode,
    collect: bool,
    verbose: bool,
    hard: Option<world::HardPlan>,
    env: &RunEnv,
    use_shuttle: bool,
) -> RunResult {
    use std::sync::atomic::Ordering;
    if crate::isolate::IN_CHILD.load(Ordering::Relaxed) {
        // one execution, in the mode the parent knows: the parent escalates and forks again
        return execute_once(gen, image, mode, collect, verbose, hard, use_shuttle, env);
    }
    if !USE_SHUTTLE.load(Ordering::Relaxed) {
        let r = execute_once(gen, image, mode.clone(), collect, verbose, hard, false, env);
        match &r.panic {
            Some(p) if p.contains(NEEDS_SHUTTLE) => {
                // the generator touched a thread / lock / channel / atomic: run it under the engine
                USE_SHUTTLE.store(true, Ordering::Relaxed);
            }
            _ => return r,
        }
    }
    execute_once(gen, image, mode, collect, verbose, hard, true, env)
}

fn execute_once(
    gen: Gen,
    image: &Arc<FsImage>,
    mode: Mode,
    collect: bool,
    verbose: bool,
    hard: Option<world::HardPlan>,
    under_shuttle: bool,
    env: &RunEnv,
) -> RunResult {
    let profile = match &mode {
        Mode::Random { profile, .. } => Some(*profile),
        Mode::Replay(_) => None,
    };
    world::PANIC_INFO.with(|p| *p.borrow_mut() = None);
    let mut fresh = World::new(image.clone(), mode, collect, verbose);
    fresh.hard = hard;
    fresh.gen_index = match gen {
        Gen::Layout => 0,
        Gen::Likely => 1,
    };
    if let Some(d) = &env.disk {
        fresh.load_disk(d);
    }
    fresh.crash = env.crash;
    if env.disk_full {
        fresh.write_fault_decided = true;
        fresh.out_budget = Some(0);
    }
    if let Some(i) = &env.inodes {
        // (the handles counted there belong to the other process and stay open throughout)
        fresh.inodes = i.clone();
    }
    if !crate::isolate::ISOLATE.load(std::sync::atomic::Ordering::Relaxed) {
        // (a nested execution in one process would share the program's statics)
        fresh.intruder = env.intruder.clone();
    }
    if under_shuttle {
        fresh.stats.shuttle_runs = 1;
        fresh.under_shuttle = true;
    }
    if std::env::var_os("GENSIM_DEBUG_RUNS").is_some() {
        eprintln!("RUN label={:?} hard={:?} shuttle={}", LABEL.with(|c| c.borrow().clone()), fresh.hard, under_shuttle);
    }
    world::install(fresh);
    enter_run(gen);
    CURRENT.with(|c| c.set(Some((gen, profile, under_shuttle))));
    let r = if under_shuttle {
        catch_unwind(AssertUnwindSafe(|| {
            let runner = shuttle::Runner::new(SimSched { started: false }, shuttle_config());
            runner.run(move || run_generator(gen));
        }))
    } else {
        catch_unwind(AssertUnwindSafe(|| run_generator(gen)))
    };
    leave_run();
    let w = world::uninstall();
    assemble(gen, profile, under_shuttle, w, r)
}

thread_local! {
    /// the execution in progress on this OS thread: what `assemble` needs besides the world
    static CURRENT: std::cell::Cell<Option<(Gen, Option<Profile>, bool)>> = const { std::cell::Cell::new(None) };
}

/// (round 11) `process::exit` in a run that has a process of its own (forked child): the process
/// image is gone *at this instant* — the result is assembled from the world as it is, sent to the
/// parent, and the child ends without unwinding anything. (Unwinding out of `exit` used to stand
/// for it; a program that calls `exit` from a panic hook, or whose thread-local destructors use
/// synchronisation primitives while the engine tears the execution down, aborted the child on the
/// way — control `n3_r4` under an injected read or write error.)
pub fn exit_child_now(code: i32) {
    use std::sync::atomic::Ordering;
    if !crate::isolate::IN_CHILD.load(Ordering::Relaxed) || crate::isolate::CHILD_FD.load(Ordering::Relaxed) < 0 {
        return;
    }
    let Some((gen, profile, under_shuttle)) = CURRENT.with(|c| c.get()) else { return };
    if !world::installed() {
        return;
    }
    let w = world::uninstall();
    let r: std::thread::Result<()> = Err(Box::new(crate::seams::simenv::ExitRequest(code)));
    let res = assemble(gen, profile, under_shuttle, w, r);
    crate::isolate::child_send_and_die(&res);
}

fn assemble(gen: Gen, profile: Option<Profile>, under_shuttle: bool, mut w: World, r: std::thread::Result<()>) -> RunResult {
    let mut exit_code = None;
    let mut panic = match r {
        Ok(()) => None,
        Err(_) if w.crashed.is_some() => None,
        Err(payload) => match payload.downcast_ref::<crate::seams::simenv::ExitRequest>() {
            Some(e) => {
                exit_code = Some(e.0);
                if e.0 == 0 {
                    None
                } else {
                    Some(format!("generator called process::exit({})", e.0))
                }
            }
            None => Some(
                world::PANIC_INFO
                    .with(|p| p.borrow_mut().take())
                    .unwrap_or_else(|| "<panic without recorded message>".into()),
            ),
        },
    };
    // `main` had already returned (the process was gone) when a detached thread failed, blocked
    // for ever or the step bound ran out: that never happened as far as the outside world can tell
    if w.frozen && w.exit_code.is_none() && exit_code.is_none() && panic.is_some() {
        panic = None;
    }
    if exit_code.is_none() {
        // process::exit called on a thread other than the one whose unwinding reached us
        if let Some(c) = w.exit_code {
            exit_code = Some(c);
            panic = if c == 0 { None } else { Some(format!("generator called process::exit({})", c)) };
        }
    }
    // what the generator produced: its stdout; if it printed nothing but wrote files, the file
    // that replaces the checked-in table (or, failing that, everything it wrote)
    let disk_after = w.disk_after();
    let mut out = std::mem::take(&mut w.out);
    if out.trim().is_empty() && !w.written.is_empty() {
        let want = match gen {
            Gen::Layout => "layout_table.rs",
            Gen::Likely => "tables.rs",
        };
        let pick: Vec<&Vec<u8>> = match w.written.iter().find(|(k, _)| k.ends_with(want)) {
            Some((_, v)) => vec![v],
            None => w.written.values().collect(),
        };
        out = pick
            .into_iter()
            .map(|v| String::from_utf8_lossy(v).into_owned())
            .collect::<Vec<_>>()
            .join("\n");
    }
    let leftover = match &w.mode {
        Mode::Replay(p) => p.leftover(),
        _ => 0,
    };
    RunResult {
        crashed: w.crashed,
        torn_write: w.torn_write,
        crash_points: w.crash_points,
        fs_mutations: w.fs_mutations,
        metadata_queries: w.metadata_queries,
        intruder: w.intruder_result.take(),
        company_ambiguous: w.company_ambiguous,
        inodes_after: Some(w.inodes.clone()),
        orphans_after: w
            .written
            .iter()
            .filter_map(|(k, v)| k.strip_prefix("<orphan:").and_then(|r| r.strip_suffix('>')).and_then(|n| n.parse::<u64>().ok()).map(|n| (n, v.clone())))
            .collect(),
        disk_after,
        gen,
        profile,
        trace: w.trace,
        out,
        log_digest: w.log.0,
        events: w.events,
        stats: w.stats,
        iter_orders: w.iter_orders,
        dir_orders: w.dir_orders,
        panic,
        exit_code,
        hard_fired: w.hard_fired,
        stalled: w.stalled || w.missing_program || w.fd_exhausted || (w.gating_fault && w.hard_fired) || w.write_faulted || w.stat_faulted || w.spawn_faulted || w.env_jobs.values().any(|n| *n != 0),
        under_shuttle,
        sched_digest: w.sched_digest.0,
        diverged: w.diverged,
        leftover_decisions: leftover,
        verbose_log: w.verbose_log,
    }
}

/// Settles, once per process and before any seeded run, what the seeded runs' decisions are
/// relative to: the length of each program's output under the default schedule (where the
/// "disk full" marks go). Every command that executes seeded runs calls this first, so that a
/// seeded run is the same execution in the checking process, in a replay and in a trace.
pub fn prime_output_hints(image: &Arc<FsImage>) {
    for (i, g) in [Gen::Layout, Gen::Likely].into_iter().enumerate() {
        let r = execute(g, image, replay_mode(&[]), false, false);
        let n = r.out.len() as u64;
        if n > 0 {
            world::OUT_LEN_HINT[i].store(n, std::sync::atomic::Ordering::Relaxed);
        }
    }
}

/// Seeded run `run` of generator `gen` under batch seed `seed`.
pub fn random_mode(seed: u64, gen: Gen, run: u64) -> Mode {
    let mut rng = Rng::new(run_seed(seed, gen.stream(), run));
    let mut profile = Profile::draw(&mut rng);
    // everything added after the first release draws from its own stream (see Profile::draw_aux)
    let mut aux = Rng::new(run_seed(seed, gen.stream() + 32, run));
    profile.draw_aux(&mut aux);
    // (round 11) the full-disk fault draws from a third stream, so that everything else a given
    // (seed, run) decides stays what it was; never together with the read error
    let mut aux3 = Rng::new(run_seed(seed, gen.stream() + 64, run));
    if !profile.read_fault && aux3.chance(1, 8) {
        profile.write_fault = aux3.next_u64() | 1;
    }
    // (round 13) one metadata query fails with EIO: same stream, drawn after everything else
    if !profile.read_fault && profile.write_fault == 0 && aux3.chance(1, 7) {
        profile.stat_fault = aux3.next_u64() | 1;
    }
    // (round 15) one thread creation fails with EAGAIN: same stream, drawn last
    if !profile.read_fault && profile.write_fault == 0 && profile.stat_fault == 0 && aux3.chance(1, 7) {
        profile.spawn_fault = aux3.next_u64() | 1;
    }
    Mode::Random { rng, aux, profile }
}

pub fn replay_mode(schedule: &[Decision]) -> Mode {
    Mode::Replay(world::ReplayPlan::new(schedule))
}

/// R1 + R2 for one run. `good` caches outputs already judged equal to the compiled tables.
pub fn judge(r: &RunResult, comp: &BTreeMap<String, Val>, good: &mut Vec<String>) -> Vec<Violation> {
    if r.panic.is_some() && r.stalled {
        // a deadline passed in this run (stalled-machine fault): failing loudly is acceptable,
        // only a *completed* run with a wrong table counts (DESIGN §4.4)
        return vec![];
    }
    if let Some(p) = &r.panic {
        // identity of a crash = where it happened + its message with numbers masked (JSON error
        // positions, lengths and the like differ from schedule to schedule)
        let first = p.lines().next().unwrap_or("");
        let (msg, loc) = match first.rfind(" at ") {
            Some(i) => (&first[..i], &first[i + 4..]),
            None => (first, ""),
        };
        let mut masked = String::new();
        let mut in_num = false;
        for c in msg.chars().take(120) {
            if c.is_ascii_digit() {
                if !in_num {
                    masked.push('#');
                }
                in_num = true;
            } else {
                in_num = false;
                masked.push(if c == ':' { ';' } else { c });
            }
        }
        return vec![Violation {
            class: "R1".into(),
            table: "-".into(),
            signature: format!("R1:{}:panic:{}:{}", r.gen.name(), loc.replace(':', "#"), masked),
            detail: format!(
                "generator {} did not run to completion under a legal schedule (directory order, hash order, stream behaviour): {}",
                r.gen.program(),
                p
            ),
        }];
    }
    if good.iter().any(|g| *g == r.out) {
        return vec![];
    }
    let v = check_output(r.gen.name(), &r.out, comp);
    if v.is_empty() && good.len() < 64 {
        good.push(r.out.clone());
    }
    v
}

// ---------------------------------------------------------------------------------------------
// sessions: histories of runs on one machine, some of them cut short (crash / power loss)
// ---------------------------------------------------------------------------------------------

/// One run of a session.
#[derive(Clone)]
pub struct Step {
    pub mode: Mode,
    /// where the run is cut short (never for the last run of a session)
    pub crash: Option<world::CrashPlan>,
    /// how far the wall clock moved since the previous run ended (negative: it was stepped back)
    pub gap_ns: i64,
    /// the run saw an earlier version of the data (never for the last run of a session)
    pub drift: Vec<world::Drift>,
    /// a second instance of a generator runs while this one is running
    pub intruder: Option<world::IntruderPlan>,
}

pub struct SessionResult {
    /// every run of the session, the judged one last
    pub runs: Vec<RunResult>,
}

impl SessionResult {
    pub fn last(&self) -> &RunResult {
        self.runs.last().expect("a session has at least one run")
    }
    /// digest of everything observable: event logs and what each run left on disk
    pub fn digest(&self) -> u64 {
        let mut d = crate::rng::Fnv::default();
        for r in &self.runs {
            d.u64(r.log_digest);
            d.u64(r.disk_after.digest());
            d.u64(r.crashed.map(|k| 1 + k as u64).unwrap_or(0));
        }
        d.0
    }
}

pub fn execute_session(gen: Gen, image: &Arc<FsImage>, steps: &[Step], mtime_seed: u64, verbose: bool) -> SessionResult {
    let mut disk = world::Disk::fresh(mtime_seed);
    let mut runs = vec![];
    for st in steps {
        disk.clock_ns = (disk.clock_ns as i128 + st.gap_ns as i128).max(1) as u64;
        let env = RunEnv {
            disk: Some(disk.clone()),
            crash: st.crash,
            intruder: st.intruder.clone(),
            inodes: None,
            disk_full: false,
        };
        let r = if st.drift.is_empty() {
            execute_env(gen, image, st.mode.clone(), &env, verbose)
        } else {
            let old = Arc::new(image.with_drift(&st.drift));
            execute_env(gen, &old, st.mode.clone(), &env, verbose)
        };
        disk = r.disk_after.clone();
        runs.push(r);
    }
    SessionResult { runs }
}

/// Seeded session `i`: one to three earlier runs, each under its own schedule and most of them cut
/// short at a seeded crash point, then the run that is judged. `m0` = crash points of a complete
/// run under the default schedule (a crash index beyond the run's own count lets it complete).
pub fn session_steps(seed: u64, gen: Gen, image: &FsImage, i: u64, m0: u64) -> (Vec<Step>, u64) {
    let mut rng = Rng::new(run_seed(seed, gen.stream() + 64, i));
    let mtime_seed = rng.next_u64();
    let n_prev = [1usize, 1, 1, 2, 2, 3][rng.below(6) as usize];
    let mut steps = vec![];
    let base = (1u64 << 40) | (i << 2);
    let mode_of = |rng: &mut Rng, j: u64| -> Mode {
        if rng.chance(1, 4) {
            replay_mode(&[])
        } else {
            random_mode(seed, gen, base | j)
        }
    };
    let gap_of = |rng: &mut Rng| -> i64 {
        match rng.below(10) {
            0 => 0,
            1 => -((1 + rng.below(3_600)) as i64) * 1_000_000_000,
            2..=5 => (1_000_000 + rng.below(10_000_000_000)) as i64,
            _ => ((60 + rng.below(30 * 86_400)) as i64) * 1_000_000_000,
        }
    };
    for j in 0..n_prev as u64 {
        let mode = mode_of(&mut rng, j);
        let crash = world::CrashPlan {
            at: rng.below(m0 + m0 / 4 + 2),
            kind: if rng.chance(1, 2) { world::CrashKind::Kill } else { world::CrashKind::PowerLoss },
            salt: rng.next_u64(),
        };
        let gap_ns = if j == 0 { 0 } else { gap_of(&mut rng) };
        // every other earlier run saw an earlier version of the data (a CLDR update happened
        // since); such a run is cut short only half of the time
        let drift = if rng.chance(1, 2) { image.draw_drift(&mut rng) } else { vec![] };
        let crash = if !drift.is_empty() && rng.chance(1, 2) { None } else { Some(crash) };
        steps.push(Step {
            mode,
            crash,
            gap_ns,
            drift,
            intruder: None,
        });
    }
    let mode = mode_of(&mut rng, 3);
    let gap_ns = gap_of(&mut rng);
    steps.push(Step {
        mode,
        crash: None,
        gap_ns,
        drift: vec![],
        intruder: None,
    });
    // one run in four of a session has company: a second instance (the same program two times in
    // three, else the other generator) started while it runs. Drawn last, so that the histories of
    // a given seed without company stay what they were.
    for (j, st) in steps.iter_mut().enumerate() {
        if rng.chance(1, 4) {
            let same = rng.chance(2, 3);
            let g2 = if same { gen } else if gen == Gen::Layout { Gen::Likely } else { Gen::Layout };
            st.intruder = Some(world::IntruderPlan {
                gen_id: if g2 == Gen::Layout { 0 } else { 1 },
                mode: if rng.chance(1, 3) { replay_mode(&[]) } else { random_mode(seed, g2, base | (1 << 39) | j as u64) },
                at: rng.below(m0 + 1),
                // (round 17) half of the second instances are killed half-way (or are simply still
                // at work when the first one goes on): the first instance then meets what a
                // *running* peer has on disk, not only what a finished one leaves
                kill_at: None,
            });
            if let Some(p) = st.intruder.as_mut() {
                if rng.chance(1, 2) {
                    p.kill_at = Some(rng.below(m0 + 2));
                }
            }
        }
    }
    (steps, mtime_seed)
}

/// Verdict of a session: only its last run is judged, and only when it ran to completion — a run
/// that finds the leftovers of a crashed predecessor may refuse to work (fail loudly); it may not
/// complete with a table that differs from what the CLDR data determine.
pub fn judge_session(s: &SessionResult, comp: &BTreeMap<String, Val>, good: &mut Vec<String>) -> Vec<Violation> {
    judge_session_with(s, &[], comp, good)
}

/// `drifted[i]`: run i saw an earlier version of the data (its company did too and cannot be
/// judged against the bundled data's tables)
pub fn judge_session_with(s: &SessionResult, drifted: &[bool], comp: &BTreeMap<String, Val>, good: &mut Vec<String>) -> Vec<Violation> {
    // a second instance that ran to completion while another instance was running must have
    // printed the tables too (it may refuse to work — a lock — but not print something else)
    if s.runs.iter().any(|r| r.company_ambiguous) {
        return vec![];
    }
    let mut company: Vec<Violation> = vec![];
    for (i, r) in s.runs.iter().enumerate() {
        let Some(r2) = &r.intruder else { continue };
        if drifted.get(i).copied().unwrap_or(false) || r2.panic.is_some() || r2.crashed.is_some() {
            // (a second instance that was killed half-way printed nothing that could be judged)
            continue;
        }
        let mut g2 = vec![];
        for mut v in judge(r2, comp, &mut g2) {
            v.detail = format!(
                "a second instance ({}) started while run {} of the session was in the middle of its file-system work and ran to completion: {}",
                r2.gen.program(),
                i,
                v.detail
            );
            company.push(v);
        }
    }
    if !company.is_empty() {
        return company;
    }
    let last = s.last();
    if last.panic.is_some() && s.runs.len() > 1 {
        return vec![];
    }
    let hist: Vec<String> = s.runs[..s.runs.len() - 1]
        .iter()
        .map(|r| match r.crashed {
            Some(k) => format!("{} at crash point {}", k.name(), r.crash_points.saturating_sub(1)),
            None if r.panic.is_some() => "failed".to_string(),
            None => "completed".to_string(),
        })
        .collect();
    judge(last, comp, good)
        .into_iter()
        .map(|mut v| {
            if !hist.is_empty() {
                v.detail = format!("after a history of {} earlier run(s) on the same machine ({}): {}", hist.len(), hist.join("; "), v.detail);
            }
            v
        })
        .collect()
}

/// Explicit form of the steps of an executed session (each run's recorded schedule).
/// (generator id, schedule, file-system mutation before which it starts)
pub type ExplicitIntruder = (u8, Vec<Decision>, u64, Option<u64>);
pub type ExplicitStep = (Vec<Decision>, Option<world::CrashPlan>, i64, Vec<world::Drift>, Option<ExplicitIntruder>);

pub fn explicit_steps(steps: &[Step], res: &SessionResult) -> Vec<ExplicitStep> {
    steps
        .iter()
        .zip(res.runs.iter())
        .map(|(st, r)| {
            let company = match (&st.intruder, &r.intruder) {
                (Some(p), Some(r2)) => Some((p.gen_id, r2.trace.clone(), p.at, p.kill_at)),
                _ => None, // planned but never started (the run had fewer mutations)
            };
            (r.trace.clone(), st.crash, st.gap_ns, st.drift.clone(), company)
        })
        .collect()
}

pub fn steps_from_explicit(e: &[ExplicitStep]) -> Vec<Step> {
    e.iter()
        .map(|(sched, crash, gap, drift, company)| Step {
            mode: replay_mode(sched),
            crash: *crash,
            gap_ns: *gap,
            drift: drift.clone(),
            intruder: company.as_ref().map(|(g, sc, at, kill_at)| world::IntruderPlan {
                gen_id: *g,
                mode: replay_mode(sc),
                at: *at,
                kill_at: *kill_at,
            }),
        })
        .collect()
}

/// Shrink a failing session: drop earlier runs, default whole schedules, prefer a plain kill over
/// a power loss and a one-second gap over anything else, while the same violation class persists.
pub fn minimise_session(
    gen: Gen,
    image: &Arc<FsImage>,
    comp: &BTreeMap<String, Val>,
    steps: Vec<ExplicitStep>,
    mtime_seed: u64,
    target: &str,
) -> (Vec<ExplicitStep>, u64) {
    let mut tests = 0u64;
    let mut fails = |e: &[ExplicitStep]| -> bool {
        tests += 1;
        let r = execute_session(gen, image, &steps_from_explicit(e), mtime_seed, false);
        let mut good = vec![];
        let drifted: Vec<bool> = e.iter().map(|x| !x.3.is_empty()).collect();
        judge_session_with(&r, &drifted, comp, &mut good).iter().any(|v| violation_class(v) == target)
    };
    let mut cur = steps;
    if !fails(&cur) {
        return (cur, tests);
    }
    // drop earlier runs
    let mut i = 0;
    while cur.len() > 1 && i + 1 < cur.len() {
        let mut cand = cur.clone();
        cand.remove(i);
        if fails(&cand) {
            cur = cand;
        } else {
            i += 1;
        }
    }
    // default whole schedules
    for i in 0..cur.len() {
        if cur[i].0.iter().all(|d| d.is_default()) {
            continue;
        }
        let mut cand = cur.clone();
        cand[i].0 = cand[i].0.iter().map(|d| d.defaulted()).collect();
        if fails(&cand) {
            cur = cand;
        }
    }
    // no company where none is needed; company that runs to completion where that is enough
    for i in 0..cur.len() {
        if cur[i].4.is_some() {
            let mut cand = cur.clone();
            cand[i].4 = None;
            if fails(&cand) {
                cur = cand;
                continue;
            }
            if matches!(&cur[i].4, Some((_, _, _, Some(_)))) {
                let mut cand = cur.clone();
                if let Some(c) = cand[i].4.as_mut() {
                    c.3 = None;
                }
                if fails(&cand) {
                    cur = cand;
                }
            }
        }
    }
    // fewer differences between the data versions, no crash where none is needed
    for i in 0..cur.len() {
        let mut k = 0;
        while k < cur[i].3.len() {
            let mut cand = cur.clone();
            cand[i].3.remove(k);
            if fails(&cand) {
                cur = cand;
            } else {
                k += 1;
            }
        }
        if cur[i].1.is_some() {
            let mut cand = cur.clone();
            cand[i].1 = None;
            if fails(&cand) {
                cur = cand;
            }
        }
    }
    // simpler faults
    for i in 0..cur.len() {
        if let Some(c) = cur[i].1 {
            if c.kind == world::CrashKind::PowerLoss {
                let mut cand = cur.clone();
                cand[i].1 = Some(world::CrashPlan { kind: world::CrashKind::Kill, ..c });
                if fails(&cand) {
                    cur = cand;
                }
            }
        }
        if cur[i].2 != 1_000_000_000 && i > 0 {
            let mut cand = cur.clone();
            cand[i].2 = 1_000_000_000;
            if fails(&cand) {
                cur = cand;
            }
        }
    }
    (cur, tests)
}

/// "Same violation" for the minimiser: class + table + kind (the first three signature fields);
/// for panics the whole message.
pub fn violation_class(v: &Violation) -> String {
    if v.class == "R1" {
        v.signature.clone()
    } else {
        v.signature.split(':').take(3).collect::<Vec<_>>().join(":")
    }
}

// ---------------------------------------------------------------------------------------------
// minimiser
// ---------------------------------------------------------------------------------------------

pub struct Minimised {
    pub schedule: Vec<Decision>,
    pub tests: u64,
    pub nondefault_before: usize,
    pub nondefault_after: usize,
    pub moved_before: usize,
    pub moved_after: usize,
}

/// indices (into `order`) of one longest increasing subsequence
fn lis_members(order: &[u32]) -> Vec<bool> {
    let n = order.len();
    let mut tails: Vec<usize> = vec![]; // index into order of the tail of an IS of each length
    let mut prev: Vec<Option<usize>> = vec![None; n];
    for i in 0..n {
        let pos = tails.partition_point(|&t| order[t] < order[i]);
        if pos > 0 {
            prev[i] = Some(tails[pos - 1]);
        }
        if pos == tails.len() {
            tails.push(i);
        } else {
            tails[pos] = i;
        }
    }
    let mut member = vec![false; n];
    let mut cur = tails.last().copied();
    while let Some(i) = cur {
        member[i] = true;
        cur = prev[i];
    }
    member
}

/// Rebuild a directory order from `p` in which only the entries in `keep` stay displaced; all
/// other entries are in sorted order relative to each other.
fn rebuild(p: &[u32], keep: &[u32]) -> Vec<u32> {
    let keep_set: std::collections::BTreeSet<u32> = keep.iter().copied().collect();
    // the non-kept elements, sorted, are consumed in order wherever a non-kept slot occurs
    let mut rest: Vec<u32> = p.iter().copied().filter(|x| !keep_set.contains(x)).collect();
    rest.sort();
    let mut it = rest.into_iter();
    p.iter()
        .map(|x| if keep_set.contains(x) { *x } else { it.next().unwrap() })
        .collect()
}

pub fn minimise(
    gen: Gen,
    image: &Arc<FsImage>,
    comp: &BTreeMap<String, Val>,
    trace: &[Decision],
    target: &str,
) -> Minimised {
    let mut tests = 0u64;
    let mut fails = |s: &[Decision]| -> bool {
        tests += 1;
        let r = execute(gen, image, replay_mode(s), false, false);
        let mut good = vec![];
        judge(&r, comp, &mut good).iter().any(|v| violation_class(v) == target)
    };
    let mut cur: Vec<Decision> = trace.to_vec();
    let nondefault_before = cur.iter().filter(|d| !d.is_default()).count();
    let moved_of = |s: &[Decision]| -> usize {
        s.iter()
            .map(|d| match d {
                Decision::ReadDir { order, .. } => lis_members(order).iter().filter(|m| !**m).count(),
                _ => 0,
            })
            .sum()
    };
    let moved_before = moved_of(&cur);

    // 0. the recorded trace must fail when replayed (sanity; also trims a diverging tail)
    if !fails(&cur) {
        return Minimised {
            schedule: cur,
            tests,
            nondefault_before,
            nondefault_after: nondefault_before,
            moved_before,
            moved_after: moved_before,
        };
    }
    // 1. everything default?
    let all_default: Vec<Decision> = cur.iter().map(|d| d.defaulted()).collect();
    if fails(&all_default) {
        return Minimised {
            schedule: all_default,
            tests,
            nondefault_before,
            nondefault_after: 0,
            moved_before,
            moved_after: 0,
        };
    }
    // 2. default decisions one at a time, to a fixpoint
    loop {
        let mut changed = false;
        for i in 0..cur.len() {
            if cur[i].is_default() {
                continue;
            }
            let mut cand = cur.clone();
            cand[i] = cand[i].defaulted();
            if fails(&cand) {
                cur = cand;
                changed = true;
            }
        }
        if !changed {
            break;
        }
    }
    // 3. shrink each remaining directory order: fewest displaced entries (ddmin over the displaced set)
    for i in 0..cur.len() {
        let Decision::ReadDir { path, order } = cur[i].clone() else { continue };
        if cur[i].is_default() {
            continue;
        }
        let member = lis_members(&order);
        let mut keep: Vec<u32> = order
            .iter()
            .zip(member.iter())
            .filter(|(_, m)| !**m)
            .map(|(x, _)| *x)
            .collect();
        let with = |cur: &Vec<Decision>, keep: &[u32]| -> Vec<Decision> {
            let mut c = cur.clone();
            c[i] = Decision::ReadDir {
                path: path.clone(),
                order: rebuild(&order, keep),
            };
            c
        };
        // rebuild(order, keep) with the full displaced set must reproduce `order`
        debug_assert_eq!(rebuild(&order, &keep), order);
        let mut chunk = (keep.len() + 1) / 2;
        while chunk >= 1 && !keep.is_empty() {
            let mut start = 0;
            let mut progressed = false;
            while start < keep.len() {
                let end = (start + chunk).min(keep.len());
                let mut cand: Vec<u32> = keep[..start].to_vec();
                cand.extend_from_slice(&keep[end..]);
                if fails(&with(&cur, &cand)) {
                    keep = cand;
                    progressed = true;
                } else {
                    start = end;
                }
            }
            if chunk == 1 && !progressed {
                break;
            }
            if chunk > 1 {
                chunk = (chunk + 1) / 2;
            }
        }
        // 3b. pull each displaced entry towards its sorted slot as far as the failure allows
        let mut best = rebuild(&order, &keep);
        for &e in &keep {
            let pos = best.iter().position(|x| *x == e).unwrap();
            let others: Vec<u32> = best.iter().copied().filter(|x| *x != e).collect();
            let home = others.partition_point(|x| *x < e);
            let dist = if home > pos { home - pos } else { pos - home };
            if dist <= 1 {
                continue;
            }
            // offsets from home, nearest first: 1, 2, 4, ... < dist
            let mut off = 1usize;
            while off < dist {
                let p = if home > pos { home - off } else { home + off };
                let mut o = others.clone();
                o.insert(p.min(o.len()), e);
                let mut c = cur.clone();
                c[i] = Decision::ReadDir {
                    path: path.clone(),
                    order: o.clone(),
                };
                if fails(&c) {
                    best = o;
                    break;
                }
                off *= 2;
            }
        }
        cur[i] = Decision::ReadDir { path, order: best };
    }
    // 4. simplify remaining container decisions: drop the tweak, then small keys
    for i in 0..cur.len() {
        let Decision::Container { kind, k0, k1, tweak } = cur[i].clone() else { continue };
        if cur[i].is_default() {
            continue;
        }
        let mut best = (k0, k1, tweak);
        if tweak != Tweak::None {
            let mut c = cur.clone();
            c[i] = Decision::Container {
                kind,
                k0,
                k1,
                tweak: Tweak::None,
            };
            if fails(&c) {
                best.2 = Tweak::None;
                cur = c;
            }
        }
        if best.0 != 0 || best.1 != 0 {
            for small in 0..=32u64 {
                let mut c = cur.clone();
                c[i] = Decision::Container {
                    kind,
                    k0: small,
                    k1: 0,
                    tweak: best.2,
                };
                if fails(&c) {
                    cur = c;
                    break;
                }
            }
        }
    }
    let nondefault_after = cur.iter().filter(|d| !d.is_default()).count();
    let moved_after = moved_of(&cur);
    Minimised {
        schedule: cur,
        tests,
        nondefault_before,
        nondefault_after,
        moved_before,
        moved_after,
    }
}

/// "moves from sorted" rendering of a directory order, for the replay file and messages
pub fn describe_moves(order: &[u32], names: &[String]) -> Vec<(String, usize)> {
    let member = lis_members(order);
    order
        .iter()
        .enumerate()
        .filter(|(i, _)| !member[*i])
        .map(|(i, x)| (names.get(*x as usize).cloned().unwrap_or_else(|| format!("#{}", x)), i))
        .collect()
}

// ---------------------------------------------------------------------------------------------
// self-tests of the seam semantics (cargo test)
// ---------------------------------------------------------------------------------------------
#[cfg(test)]
mod tests {
    use super::*;
    use crate::seams::shadow_std as sstd;
    use std::collections::BTreeMap as Map;
    use std::io::{Read, Write};

    fn empty_image() -> Arc<FsImage> {
        Arc::new(FsImage {
            crate_dir: "/nonexistent".into(),
            files: Map::new(),
            dirs: Map::new(),
            digest: 0,
            bytes: 0,
            special: Map::new(),
            mtime_salt: Map::new(),
        })
    }

    /// run `f` as a simulated program under the thread scheduler with the given schedule
    fn simulate(schedule: &[Decision], f: fn()) -> (World, std::thread::Result<()>) {
        survivable_panics();
        let mut w = World::new(empty_image(), replay_mode(schedule), false, false);
        w.under_shuttle = true;
        world::install(w);
        let r = catch_unwind(AssertUnwindSafe(|| {
            let runner = shuttle::Runner::new(SimSched { started: false }, shuttle_config());
            runner.run(f);
        }));
        (world::uninstall(), r)
    }

    #[test]
    fn recv_timeout_times_out_naturally_when_nobody_else_can_run() {
        let (w, r) = simulate(&[], || {
            let (tx, rx) = sstd::sync::mpsc::channel::<u32>();
            // the sender is alive but nobody will ever send
            let got = rx.recv_timeout(std::time::Duration::from_millis(50));
            assert!(matches!(got, Err(sstd::sync::mpsc::RecvTimeoutError::Timeout)));
            drop(tx);
        });
        assert!(r.is_ok());
        assert_eq!(w.stats.timeouts_natural, 1);
        assert!(!w.stalled);
    }

    #[test]
    fn recv_timeout_waits_for_a_runnable_sender_unless_a_stall_is_injected() {
        fn prog() {
            let (tx, rx) = sstd::sync::mpsc::channel::<u32>();
            let h = sstd::thread::spawn(move || {
                tx.send(7).unwrap();
            });
            let got = rx.recv_timeout(std::time::Duration::from_millis(50));
            h.join().unwrap();
            crate::seams::emit_str(&format!("{:?}", got.ok()));
        }
        // default schedule: no stall -> the value arrives
        let (w, r) = simulate(&[], prog);
        assert!(r.is_ok());
        assert_eq!(w.out, "Some(7)");
        // injected stall at the first timed wait that could have timed out -> Timeout
        let (w, r) = simulate(&[Decision::Timeout { fired: true }], prog);
        assert!(r.is_ok());
        if w.stats.timeouts_offered > 0 {
            assert_eq!(w.out, "None");
            assert!(w.stalled);
        }
    }

    #[test]
    fn condvar_wait_timeout_sees_a_notification_and_times_out_without_one() {
        let (w, r) = simulate(&[], || {
            use sstd::sync::{Arc, Condvar, Mutex};
            let pair = Arc::new((Mutex::new(false), Condvar::new()));
            let p2 = pair.clone();
            let h = sstd::thread::spawn(move || {
                *p2.0.lock().unwrap() = true;
                p2.1.notify_all();
            });
            let mut g = pair.0.lock().unwrap();
            let mut timed_out = 0;
            while !*g {
                let (g2, r) = pair.1.wait_timeout(g, std::time::Duration::from_millis(10)).unwrap();
                g = g2;
                if r.timed_out() {
                    timed_out += 1;
                }
            }
            drop(g);
            h.join().unwrap();
            // nobody notifies any more: a further timed wait can only time out
            let g = pair.0.lock().unwrap();
            let (_g, r) = pair.1.wait_timeout(g, std::time::Duration::from_millis(10)).unwrap();
            assert!(r.timed_out());
            crate::seams::emit_str(&format!("{}", timed_out));
        });
        assert!(r.is_ok(), "{:?}", world::PANIC_INFO.with(|p| p.borrow().clone()));
        assert_eq!(w.out, "0");
    }

    #[test]
    fn panic_of_the_scope_owner_with_spinning_workers_and_locking_destructors_is_a_failed_run_not_an_abort() {
        // seeded r13a under a listing error: the closure of `thread::scope` panics while workers
        // spin on a queue; its destructors take the queue's lock during the unwinding
        struct Flush<'a>(&'a sstd::sync::Mutex<Vec<u32>>);
        impl Drop for Flush<'_> {
            fn drop(&mut self) {
                self.0.lock().unwrap().push(1);
            }
        }
        struct Close<'a>(&'a sstd::sync::atomic::AtomicBool);
        impl Drop for Close<'_> {
            fn drop(&mut self) {
                self.0.store(true, std::sync::atomic::Ordering::Release);
            }
        }
        let (_w, r) = simulate(&[], || {
            let q = sstd::sync::Mutex::new(Vec::<u32>::new());
            let closed = sstd::sync::atomic::AtomicBool::new(false);
            sstd::thread::scope(|s| {
                for _ in 0..2 {
                    s.spawn(|| loop {
                        let c = closed.load(std::sync::atomic::Ordering::Acquire);
                        if q.lock().unwrap().pop().is_some() {
                            continue;
                        }
                        if c {
                            break;
                        }
                        sstd::thread::yield_now();
                    });
                }
                let _f = Flush(&q);
                let _c = Close(&closed);
                sstd::thread::yield_now();
                panic!("listing failed");
            });
        });
        // the run fails with the program's own panic, not with a deadlock of the engine's making
        let e = r.expect_err("the run fails");
        let why = e.downcast_ref::<&str>().map(|s| s.to_string()).or_else(|| e.downcast_ref::<String>().cloned()).unwrap_or_default();
        assert!(why.contains("listing failed"), "{:?}", why);
    }

    #[test]
    fn a_program_survives_the_panic_of_a_thread_it_joins() {
        // round 16: join().is_err() is error handling, not the end of the run
        let (w, r) = simulate(&[], || {
            let h = sstd::thread::spawn(|| {
                if true {
                    panic!("worker failed");
                }
                7u32
            });
            let got = h.join();
            crate::seams::emit_str(if got.is_err() { "recovered" } else { "value" });
        });
        assert!(r.is_ok(), "{:?}", world::PANIC_INFO.with(|p| p.borrow().clone()));
        assert_eq!(w.out, "recovered");
        assert_eq!(w.stats.thread_panics_survived, 1);
    }

    #[test]
    fn a_lock_released_by_an_unwinding_thread_is_poisoned_not_lost_and_a_dropped_sender_disconnects() {
        let (w, r) = simulate(&[], || {
            use sstd::sync::{Arc, Mutex};
            let m = Arc::new(Mutex::new(1u32));
            let (tx, rx) = sstd::sync::mpsc::channel::<u32>();
            let m2 = m.clone();
            let h = sstd::thread::spawn(move || {
                let _tx = tx; // dropped while the panic unwinds
                let mut g = m2.lock().unwrap();
                *g = 2;
                panic!("worker failed while holding the lock");
            });
            // a second thread waits for the lock while the first one holds it
            let m3 = m.clone();
            let h2 = sstd::thread::spawn(move || match m3.lock() {
                Ok(g) => *g,
                Err(p) => *p.into_inner() + 100,
            });
            let disconnected = rx.recv().is_err();
            let first = h.join().is_err();
            let second = h2.join().unwrap();
            let mine = match m.lock() {
                Ok(g) => *g,
                Err(p) => *p.into_inner() + 100,
            };
            crate::seams::emit_str(&format!("{} {} {} {}", disconnected, first, second, mine));
        });
        assert!(r.is_ok(), "{:?}", world::PANIC_INFO.with(|p| p.borrow().clone()));
        // the second thread got the lock either before the first one (value 1) or after its panic
        // (poisoned, value 2 + 100); main always comes after the panic
        assert!(w.out == "true true 102 102" || w.out == "true true 1 102", "{}", w.out);
    }

    #[test]
    fn a_lock_holder_that_runs_while_another_task_unwinds_does_not_poison_its_lock() {
        // all simulated threads share one OS thread and std's panic count: the worker below is
        // preempted between taking and releasing the lock, main panics, main's destructor has to
        // wait for the worker, the worker releases while main's panic is in flight - and must not
        // poison the lock by that (seeded m50 under a listing error aborted the process this way:
        // the destructor's `lock().unwrap()` panicked a second time)
        struct TakesLock<'a>(&'a sstd::sync::Mutex<u32>);
        impl Drop for TakesLock<'_> {
            fn drop(&mut self) {
                *self.0.lock().unwrap() += 10;
            }
        }
        for sched in [vec![], vec![Decision::Sched { at: 2, task: 1 }], vec![Decision::Sched { at: 3, task: 1 }], vec![Decision::Sched { at: 4, task: 1 }]] {
            let (w, r) = simulate(&sched, || {
                let m = sstd::sync::Mutex::new(0u32);
                let r = std::panic::catch_unwind(std::panic::AssertUnwindSafe(|| {
                    sstd::thread::scope(|s| {
                        s.spawn(|| {
                            for _ in 0..3 {
                                *m.lock().unwrap() += 1;
                            }
                        });
                        let _t = TakesLock(&m);
                        sstd::thread::yield_now();
                        panic!("main fails");
                    })
                }));
                assert!(r.is_err());
                let v = *m.lock().expect("the lock is not poisoned: nobody panicked while holding it");
                crate::seams::emit_str(&format!("{}", v));
            });
            assert!(r.is_ok(), "schedule {:?}", sched);
            assert_eq!(w.out, "13", "schedule {:?}", sched);
        }
    }

    #[test]
    fn deadlock_is_reported() {
        let (_w, r) = simulate(&[], || {
            let (_tx, rx) = sstd::sync::mpsc::channel::<u32>();
            let _ = rx.recv(); // sender alive, nobody sends, no deadline
        });
        assert!(r.is_err());
    }

    #[test]
    fn formatter_child_is_an_identity_filter_and_may_be_missing() {
        fn prog() {
            let mut child = match sstd::process::Command::new("rustfmt")
                .stdin(sstd::process::Stdio::piped())
                .stdout(sstd::process::Stdio::piped())
                .spawn()
            {
                Ok(c) => c,
                Err(_) => {
                    crate::seams::emit_str("missing");
                    return;
                }
            };
            let mut stdin = child.stdin.take().unwrap();
            let feeder = sstd::thread::spawn(move || {
                stdin.write_all(b"pub const X: u8 = 1;").unwrap();
            });
            let mut out = String::new();
            child.stdout.take().unwrap().read_to_string(&mut out).unwrap();
            feeder.join().unwrap();
            assert!(child.wait().unwrap().success());
            crate::seams::emit_str(&out);
        }
        let (w, r) = simulate(&[], prog);
        assert!(r.is_ok());
        assert_eq!(w.out, "pub const X: u8 = 1;");
        let (w, r) = simulate(
            &[Decision::Program {
                name: "rustfmt".into(),
                available: false,
            }],
            prog,
        );
        assert!(r.is_ok());
        assert_eq!(w.out, "missing");
        assert!(w.missing_program);
    }

    #[test]
    fn output_is_frozen_at_process_exit_and_when_main_returns() {
        let (w, _r) = simulate(&[], || {
            let mut b = std::io::BufWriter::new(sstd::io::stdout());
            b.write_all(b"buffered").unwrap();
            crate::seams::emit_str("printed;");
            sstd::process::exit(0);
        });
        assert_eq!(w.out, "printed;");
        let (w, r) = simulate(&[], || {
            sstd::thread::spawn(|| {
                sstd::thread::yield_now();
                crate::seams::emit_str("late");
            });
            crate::seams::emit_str("main;");
            crate::seams::main_returned();
        });
        assert!(r.is_ok());
        assert_eq!(w.out, "main;");
    }

    #[test]
    fn short_writes_lose_data_only_for_write_not_for_write_all() {
        let plan = [Decision::Open {
            path: "<stdout>".into(),
            io_seed: 12345,
        }];
        let payload: String = "x".repeat(4000);
        let (w, _) = simulate(&plan, || {
            let mut o = sstd::io::stdout();
            o.write_all("x".repeat(4000).as_bytes()).unwrap();
        });
        assert_eq!(w.out, payload);
        let (w, _) = simulate(&plan, || {
            let mut o = sstd::io::stdout();
            let mut left = 40;
            // a single write may be interrupted or short
            while left > 0 {
                match o.write("x".repeat(4000).as_bytes()) {
                    Ok(_) => break,
                    Err(_) => left -= 1,
                }
            }
        });
        assert!(w.out.len() <= 4000);
        assert!(w.stats.short_writes + w.stats.write_eintr > 0 || w.out.len() == 4000);
    }

    /// run `f` as one run of a session: starts on `disk`, may be cut short
    fn simulate_env(schedule: &[Decision], disk: &world::Disk, crash: Option<world::CrashPlan>, f: fn()) -> (World, world::Disk) {
        let mut w = World::new(empty_image(), replay_mode(schedule), false, false);
        w.load_disk(disk);
        w.crash = crash;
        world::install(w);
        let _ = catch_unwind(AssertUnwindSafe(f));
        let w = world::uninstall();
        let d = w.disk_after();
        (w, d)
    }

    #[test]
    fn a_full_disk_fails_println_loudly_and_write_all_with_enospc() {
        // the device takes 6 more bytes: println! writes what fits and panics like std's
        let (w, _d) = simulate_env(&[Decision::WriteFault { at: 6 }], &world::Disk::fresh(1), None, || {
            crate::seams::emit(format_args!("0123456789"), true);
            crate::seams::emit(format_args!("never"), true);
        });
        assert_eq!(w.out, "012345");
        assert!(w.write_faulted);
        assert_eq!(w.stats.write_faults_injected, 1);
        // a write through the handle: a short write first, then ENOSPC for good
        let (w, _d) = simulate_env(&[Decision::WriteFault { at: 3 }], &world::Disk::fresh(1), None, || {
            let mut o = sstd::io::stdout();
            assert_eq!(o.write(b"abcdef").unwrap(), 3);
            let e = o.write(b"def").unwrap_err();
            assert_eq!(e.raw_os_error(), Some(28));
            let e = o.write_all(b"x").unwrap_err();
            assert_eq!(e.raw_os_error(), Some(28));
            // files are on the same disk
            let e = sstd::fs::write("../target/t.txt", b"hello").unwrap_err();
            assert_eq!(e.raw_os_error(), Some(28));
        });
        assert_eq!(w.out, "abc");
        // no fault planned: nothing changes
        let (w, _d) = simulate_env(&[], &world::Disk::fresh(1), None, || {
            crate::seams::emit(format_args!("0123456789"), true);
        });
        assert_eq!(w.out, "0123456789\n");
        assert!(!w.write_faulted);
    }

    fn writes_three_chunks() {
        let mut f = sstd::fs::File::create("../target/state.txt").unwrap();
        f.write_all(b"AAAA").unwrap();
        f.write_all(b"BBBB").unwrap();
        f.write_all(b"CCCC").unwrap();
        crate::seams::emit_str("done");
    }

    #[test]
    fn a_killed_run_leaves_a_prefix_and_the_next_run_sees_it() {
        let fresh = world::Disk::fresh(1);
        // no crash: the whole file, and the print
        let (w, d) = simulate_env(&[], &fresh, None, writes_three_chunks);
        assert_eq!(w.out, "done");
        assert_eq!(d.files["../target/state.txt"], b"AAAABBBBCCCC");
        assert_eq!(w.crash_points, 5); // create, three writes, one print
        // killed at every crash point: what is on disk is a prefix of the file, never more
        let mut seen = std::collections::BTreeSet::new();
        for at in 0..5 {
            for salt in 0..8 {
                let plan = world::CrashPlan { at, kind: world::CrashKind::Kill, salt };
                let (w, d) = simulate_env(&[], &fresh, Some(plan), writes_three_chunks);
                assert!(w.crashed.is_some());
                let left = d.files.get("../target/state.txt").cloned().unwrap_or_default();
                assert!(b"AAAABBBBCCCC".starts_with(&left), "{:?}", left);
                seen.insert(left.len());
            }
        }
        assert!(seen.len() >= 4, "crash points should leave different prefixes: {:?}", seen);
        // the next run of the session reads the leftover through fs and through Path
        let plan = world::CrashPlan { at: 2, kind: world::CrashKind::Kill, salt: 1 };
        let (_w, d) = simulate_env(&[], &fresh, Some(plan), writes_three_chunks);
        let (w2, _) = simulate_env(&[], &d, None, || {
            let p = sstd::path::Path::new("../target/state.txt");
            let seen = sstd::fs::read_to_string(p).unwrap_or_default();
            crate::seams::emit_str(&format!("{} {} {}", p.exists(), p.is_file(), seen));
        });
        assert!(w2.out.starts_with("true true AAAA"), "{}", w2.out);
    }

    fn atomic_replace() {
        let mut f = sstd::fs::File::create("../target/state.tmp").unwrap();
        f.write_all(b"NEW-CONTENT").unwrap();
        f.sync_all().unwrap();
        drop(f);
        sstd::fs::rename("../target/state.tmp", "../target/state.txt").unwrap();
    }
    fn sloppy_replace() {
        sstd::fs::write("../target/state.tmp", b"NEW-CONTENT").unwrap();
        sstd::fs::rename("../target/state.tmp", "../target/state.txt").unwrap();
    }

    #[test]
    fn power_loss_respects_fsync_and_rename_atomicity() {
        let mut old = world::Disk::fresh(1);
        old.files.insert("../target/state.txt".into(), b"OLD".to_vec());
        let mut sloppy_outcomes = std::collections::BTreeSet::new();
        for at in 0..4 {
            for salt in 0..64 {
                let plan = world::CrashPlan { at, kind: world::CrashKind::PowerLoss, salt };
                let (_w, d) = simulate_env(&[], &old, Some(plan), atomic_replace);
                let got = d.files.get("../target/state.txt").cloned();
                // written, fsynced, renamed: old or new, nothing in between
                assert!(got.as_deref() == Some(&b"OLD"[..]) || got.as_deref() == Some(&b"NEW-CONTENT"[..]), "{:?}", got);
                let (_w, d) = simulate_env(&[], &old, Some(plan), sloppy_replace);
                sloppy_outcomes.insert(d.files.get("../target/state.txt").cloned());
            }
        }
        // never fsynced: a torn or empty file under the final name is possible
        assert!(sloppy_outcomes.iter().any(|o| match o {
            Some(v) => v.as_slice() != b"OLD" && v.as_slice() != b"NEW-CONTENT",
            None => false,
        }), "{:?}", sloppy_outcomes);
    }

    fn hoards_files() {
        sstd::fs::write("../target/f", b"x").unwrap();
        let mut open = vec![];
        let mut failed = 0;
        for _ in 0..400 {
            match sstd::fs::File::open("../target/f") {
                Ok(f) => open.push(f),
                Err(e) => {
                    assert_eq!(e.raw_os_error(), Some(24));
                    failed += 1;
                }
            }
        }
        crate::seams::emit_str(&format!("{} {}", open.len(), failed));
    }

    #[test]
    fn the_open_file_limit_is_a_decision_once_a_program_hoards_descriptors() {
        let fresh = world::Disk::fresh(1);
        // default machine: 1024 descriptors, 400 files fit
        let (w, _) = simulate_env(&[], &fresh, None, hoards_files);
        assert_eq!(w.out, "400 0");
        assert_eq!(w.stats.fd_limit_decisions, 1);
        // 256 descriptors: 3 are stdio
        let (w, _) = simulate_env(&[Decision::FdLimit { n: 256 }], &fresh, None, hoards_files);
        assert_eq!(w.out, "253 147");
        assert!(w.fd_exhausted);
        // a program that opens one file at a time never meets the decision
        let (w, _) = simulate_env(&[], &fresh, None, || {
            sstd::fs::write("../target/f", b"x").unwrap();
            for _ in 0..400 {
                let _f = sstd::fs::File::open("../target/f").unwrap();
            }
        });
        assert_eq!(w.stats.fd_limit_decisions, 0);
        assert_eq!(w.open_fds, 3);
    }

    #[test]
    fn written_files_have_metadata_and_modification_times() {
        let fresh = world::Disk::fresh(7);
        let (w, d) = simulate_env(&[], &fresh, None, || {
            sstd::fs::write("../target/a", b"12345").unwrap();
            let m = sstd::fs::metadata("../target/a").unwrap();
            let t1 = m.modified().unwrap();
            sstd::thread::sleep(std::time::Duration::from_secs(2));
            sstd::fs::write("../target/a", b"123456").unwrap();
            let m2 = sstd::fs::metadata("../target/a").unwrap();
            let newer = m2.modified().unwrap() > t1;
            crate::seams::emit_str(&format!("{} {} {} {}", m.len(), m2.len(), m.is_file(), newer));
            assert!(sstd::fs::metadata("../target/nope").is_err());
        });
        // (sleep outside the thread scheduler is the engine's business: the run may have failed
        // there; what matters is what was observed before)
        if w.out.is_empty() {
            return;
        }
        assert_eq!(w.out, "5 6 true true");
        assert!(d.mtimes["../target/a"] > world::CLOCK_START_NS);
    }

    #[test]
    fn two_pollers_do_not_starve_a_worker_under_the_default_schedule() {
        let (w, r) = simulate(&[], || {
            use sstd::sync::atomic::{AtomicBool, Ordering};
            use sstd::sync::Arc;
            let done = Arc::new(AtomicBool::new(false));
            let d2 = done.clone();
            // a second poller with a lower id than the worker
            let d3 = done.clone();
            let poller = sstd::thread::spawn(move || {
                while !d3.load(Ordering::SeqCst) {
                    sstd::thread::sleep(std::time::Duration::from_micros(50));
                }
            });
            let worker = sstd::thread::spawn(move || {
                for _ in 0..10 {
                    sstd::thread::yield_now();
                }
                d2.store(true, Ordering::SeqCst);
            });
            while !done.load(Ordering::SeqCst) {
                sstd::thread::sleep(std::time::Duration::from_micros(50));
            }
            poller.join().unwrap();
            worker.join().unwrap();
            crate::seams::emit_str("finished");
        });
        assert!(r.is_ok(), "{:?}", world::PANIC_INFO.with(|p| p.borrow().clone()));
        assert_eq!(w.out, "finished");
        assert!(w.stats.sched_steps < 10_000, "{} steps", w.stats.sched_steps);
    }

    #[test]
    fn nested_scopes_wait_for_their_own_threads() {
        // the engine's own scope returns early here: the outer scope's quick thread wakes the task
        // while it waits for the inner scope's slow thread
        let (w, r) = simulate(&[], || {
            use sstd::sync::atomic::{AtomicUsize, Ordering};
            let hits = AtomicUsize::new(0);
            sstd::thread::scope(|outer| {
                outer.spawn(|| {
                    hits.fetch_add(1, Ordering::SeqCst);
                });
                sstd::thread::scope(|inner| {
                    let h = inner.spawn(|| {
                        for _ in 0..20 {
                            sstd::thread::yield_now();
                        }
                        hits.fetch_add(10, Ordering::SeqCst);
                        7
                    });
                    assert_eq!(h.join().unwrap(), 7);
                    inner.spawn(|| {
                        for _ in 0..20 {
                            sstd::thread::yield_now();
                        }
                        hits.fetch_add(100, Ordering::SeqCst);
                    });
                });
                // the inner scope is over: both of its threads are done
                assert!(hits.load(Ordering::SeqCst) >= 110);
            });
            crate::seams::emit_str(&format!("{}", hits.load(Ordering::SeqCst)));
        });
        assert!(r.is_ok(), "{:?}", world::PANIC_INFO.with(|p| p.borrow().clone()));
        assert_eq!(w.out, "111");
    }

    #[test]
    fn a_panicking_scoped_thread_fails_the_scope_unless_joined() {
        let (_w, r) = simulate(&[], || {
            sstd::thread::scope(|s| {
                s.spawn(|| panic!("worker failed"));
            });
        });
        assert!(r.is_err());
        let (w, r) = simulate(&[], || {
            let got = sstd::thread::scope(|s| s.spawn(|| -> u8 { panic!("worker failed") }).join().is_err());
            crate::seams::emit_str(&format!("{}", got));
        });
        assert!(r.is_ok());
        assert_eq!(w.out, "true");
    }

    #[test]
    fn an_open_handle_follows_its_file_through_rename_and_unlink() {
        let fresh = world::Disk::fresh(1);
        let (w, d) = simulate_env(&[], &fresh, None, || {
            // the handle follows the rename
            let mut f = sstd::fs::File::create("../target/a.tmp").unwrap();
            f.write_all(b"one ").unwrap();
            sstd::fs::rename("../target/a.tmp", "../target/a.txt").unwrap();
            f.write_all(b"two").unwrap();
            drop(f);
            // an unlinked file lives on for its handle and is gone afterwards
            let mut g = sstd::fs::File::create("../target/spool").unwrap();
            sstd::fs::remove_file("../target/spool").unwrap();
            g.write_all(b"spooled").unwrap();
            let gone = !sstd::path::Path::new("../target/spool").exists();
            // a file replaced by a rename keeps its old content for handles opened before
            sstd::fs::write("../target/b.txt", b"old").unwrap();
            let mut h = sstd::fs::OpenOptions::new().append(true).open("../target/b.txt").unwrap();
            sstd::fs::write("../target/b.new", b"new").unwrap();
            sstd::fs::rename("../target/b.new", "../target/b.txt").unwrap();
            h.write_all(b"+late").unwrap();
            drop(h);
            crate::seams::emit_str(&format!(
                "{} {} {}",
                sstd::fs::read_to_string("../target/a.txt").unwrap(),
                gone,
                sstd::fs::read_to_string("../target/b.txt").unwrap()
            ));
            drop(g);
        });
        assert_eq!(w.out, "one two true new");
        assert!(!d.files.contains_key("../target/a.tmp"));
        assert!(!d.files.contains_key("../target/spool"));
        assert!(d.files.keys().all(|k| !k.starts_with("<orphan")), "{:?}", d.files.keys().collect::<Vec<_>>());
    }

    #[test]
    fn replay_plan_routes_decisions() {
        let p = world::ReplayPlan::new(&[
            Decision::Sched { at: 3, task: 2 },
            Decision::Open { path: "a".into(), io_seed: 9 },
            Decision::Cores { n: 24 },
            Decision::Sched { at: 5, task: world::NO_DEVIATION },
        ]);
        assert_eq!(p.sched.get(&3), Some(&2));
        assert_eq!(p.sched.len(), 1);
        assert_eq!(p.opens["a"].front(), Some(&9));
        assert_eq!(p.q.len(), 1);
    }
}
