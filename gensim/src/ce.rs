//! Compile-and-evaluate fallback of the output oracle (R2).
//!
//! A generator prints Rust source. The fast path reads it with the tolerant item reader
//! (`rsparse`). A generator is free, though, to print any Rust the compiler accepts in place of
//! the checked-in file — a macro DSL, `const fn` constructors, type aliases, helper items — and
//! then only the compiler can say which tables that text denotes. This module does exactly what
//! "re-run the generator and compare its output with the checked-in file" means at the level of
//! values: it puts the output where the checked-in file is, in a scratch copy of the repository,
//! builds a tiny program against that copy (with the read-only hook re-export) that prints the
//! compiled statics in the canonical item syntax, and hands the result back to the ordinary
//! comparison. One compilation per *distinct* output text (comments and layout ignored), cached,
//! with a budget per process.

use crate::rsparse::{parse_items, Val};
use std::collections::{BTreeMap, HashMap};
use std::path::{Path, PathBuf};
use std::sync::atomic::{AtomicU64, Ordering};
use std::sync::{Mutex, OnceLock};

pub const BUDGET: u64 = 24;

pub static COMPILED: AtomicU64 = AtomicU64::new(0);
pub static CACHE_HITS: AtomicU64 = AtomicU64::new(0);
pub static OVER_BUDGET: AtomicU64 = AtomicU64::new(0);
pub static UNJUDGED: AtomicU64 = AtomicU64::new(0);

/// an output that could be judged neither by the item reader nor by the compiler
pub fn note_unjudged(why: &str) {
    if UNJUDGED.fetch_add(1, Ordering::Relaxed) == 0 {
        eprintln!("NOTE: a generator output could not be judged: {}", why);
    }
}

#[derive(Clone, Debug)]
pub enum Outcome {
    /// the tables the output denotes, by item name
    Tables(BTreeMap<String, Val>),
    /// the output does not compile in place of the checked-in file
    DoesNotCompile(String),
    /// the scratch build could not be carried out (environment), or the budget is used up
    Unavailable(String),
}

fn cache() -> &'static Mutex<HashMap<(String, u64), Outcome>> {
    static C: OnceLock<Mutex<HashMap<(String, u64), Outcome>>> = OnceLock::new();
    C.get_or_init(|| Mutex::new(HashMap::new()))
}

/// digest of the text with comments and white space removed (so a time stamp in a comment does
/// not make every output "new")
fn text_digest(text: &str) -> u64 {
    let mut d = crate::rng::Fnv::default();
    let b = text.as_bytes();
    let mut i = 0;
    let mut in_str = false;
    while i < b.len() {
        let c = b[i];
        if in_str {
            d.bytes(&[c]);
            if c == b'\\' && i + 1 < b.len() {
                d.bytes(&[b[i + 1]]);
                i += 1;
            } else if c == b'"' {
                in_str = false;
            }
            i += 1;
        } else if c == b'"' {
            in_str = true;
            d.bytes(&[c]);
            i += 1;
        } else if c == b'/' && i + 1 < b.len() && b[i + 1] == b'/' {
            while i < b.len() && b[i] != b'\n' {
                i += 1;
            }
        } else if c == b'/' && i + 1 < b.len() && b[i + 1] == b'*' {
            i += 2;
            while i + 1 < b.len() && !(b[i] == b'*' && b[i + 1] == b'/') {
                i += 1;
            }
            i += 2;
        } else if c.is_ascii_whitespace() {
            i += 1;
        } else {
            d.bytes(&[c]);
            i += 1;
        }
    }
    d.0
}

fn copy_tree(from: &Path, to: &Path, top: bool) -> std::io::Result<()> {
    std::fs::create_dir_all(to)?;
    for e in std::fs::read_dir(from)? {
        let e = e?;
        let name = e.file_name();
        let n = name.to_string_lossy();
        if n == "target" || n == ".git" || (top && n == ".github") {
            continue;
        }
        // the bundled CLDR data is not needed to compile the crate
        if n == "data" && from.ends_with("unic-langid-impl") {
            continue;
        }
        let p = e.path();
        if p.is_dir() {
            copy_tree(&p, &to.join(&name), false)?;
        } else {
            std::fs::copy(&p, to.join(&name))?;
        }
    }
    Ok(())
}

const DUMP_MAIN: &str = r#"// Prints the compiled tables in the simulator's canonical item syntax.
use unic_langid_impl::likelysubtags as l;
use unic_langid_impl::verif_tables as d;
fn o<T: std::fmt::Display>(v: &Option<T>) -> String { match v { Some(x) => format!("Some({})", x), None => "None".into() } }
fn val(v: &(Option<u64>, Option<u32>, Option<u32>)) -> String { format!("({}, {}, {})", o(&v.0), o(&v.1), o(&v.2)) }
fn main() {
    let mut s = String::new();
    s += &format!("pub static CLDR_VERSION: &str = {:?};\n", l::CLDR_VERSION);
    s += &format!("pub static LANG_ONLY: [X; {}] = [\n", l::LANG_ONLY.len());
    for (k, v) in l::LANG_ONLY.iter() { s += &format!("({}, {}),\n", k, val(v)); }
    s += "];\n";
    s += &format!("pub static LANG_REGION: [X; {}] = [\n", l::LANG_REGION.len());
    for (a, b, v) in l::LANG_REGION.iter() { s += &format!("({}, {}, {}),\n", a, b, val(v)); }
    s += "];\n";
    s += &format!("pub static LANG_SCRIPT: [X; {}] = [\n", l::LANG_SCRIPT.len());
    for (a, b, v) in l::LANG_SCRIPT.iter() { s += &format!("({}, {}, {}),\n", a, b, val(v)); }
    s += "];\n";
    s += &format!("pub static SCRIPT_REGION: [X; {}] = [\n", l::SCRIPT_REGION.len());
    for (a, b, v) in l::SCRIPT_REGION.iter() { s += &format!("({}, {}, {}),\n", a, b, val(v)); }
    s += "];\n";
    s += &format!("pub static SCRIPT_ONLY: [X; {}] = [\n", l::SCRIPT_ONLY.len());
    for (k, v) in l::SCRIPT_ONLY.iter() { s += &format!("({}, {}),\n", k, val(v)); }
    s += "];\n";
    s += &format!("pub static REGION_ONLY: [X; {}] = [\n", l::REGION_ONLY.len());
    for (k, v) in l::REGION_ONLY.iter() { s += &format!("({}, {}),\n", k, val(v)); }
    s += "];\n";
    macro_rules! arr { ($n:ident) => {{ s += &format!("pub const {}: [X; {}] = [", stringify!($n), d::$n.len()); for x in d::$n.iter() { s += &format!("{}, ", x); } s += "];\n"; }} }
    arr!(SCRIPTS_CHARACTER_DIRECTION_LTR); arr!(SCRIPTS_CHARACTER_DIRECTION_RTL); arr!(SCRIPTS_CHARACTER_DIRECTION_TTB); arr!(LANGS_CHARACTER_DIRECTION_RTL);
    print!("{}", s);
}
"#;

fn scratch_root() -> PathBuf {
    std::env::var_os("TMPDIR").map(PathBuf::from).unwrap_or_else(|| PathBuf::from("/tmp"))
}

fn target_dir() -> PathBuf {
    // next to the harness' own build output (git-ignored, rebuilt on demand)
    let exe = std::env::current_exe().ok();
    let base = exe
        .as_deref()
        .and_then(|e| e.parent())
        .and_then(|p| p.parent())
        .map(|p| p.to_path_buf())
        .unwrap_or_else(|| scratch_root().join("gensim-ce-target"));
    base.join("ce")
}

fn build_and_dump(which: &str, text: &str) -> Outcome {
    static N: AtomicU64 = AtomicU64::new(0);
    let work = scratch_root().join(format!(
        "gensim-ce-{}-{}",
        std::process::id(),
        N.fetch_add(1, Ordering::Relaxed)
    ));
    let r = build_and_dump_in(which, text, &work);
    let _ = std::fs::remove_dir_all(&work);
    r
}

fn build_and_dump_in(which: &str, text: &str, work: &Path) -> Outcome {
    let repo = work.join("repo");
    if let Err(e) = copy_tree(Path::new("/repo"), &repo, true) {
        return Outcome::Unavailable(format!("cannot copy the repository to {}: {}", repo.display(), e));
    }
    let rel = if which == "layout" {
        "unic-langid-impl/src/layout_table.rs"
    } else {
        "unic-langid-impl/src/likelysubtags/tables.rs"
    };
    if let Err(e) = std::fs::write(repo.join(rel), text) {
        return Outcome::Unavailable(format!("cannot write {}: {}", rel, e));
    }
    let dump = work.join("dump");
    let setup = (|| -> std::io::Result<()> {
        std::fs::create_dir_all(dump.join("src"))?;
        std::fs::write(
            dump.join("Cargo.toml"),
            "[package]\nname = \"ce_dump\"\nversion = \"0.1.0\"\nedition = \"2021\"\npublish = false\n[workspace]\n[dependencies]\nunic-langid-impl = { path = \"../repo/unic-langid-impl\", features = [\"likelysubtags\"] }\n[profile.dev]\nopt-level = 0\ndebug = false\n",
        )?;
        std::fs::write(dump.join("src/main.rs"), DUMP_MAIN)?;
        // resolve like the harness itself (its lock file is a superset of what the dump needs)
        let own = std::env::current_exe()
            .ok()
            .and_then(|e| e.parent().and_then(|p| p.parent()).and_then(|p| p.parent()).map(|p| p.join("Cargo.lock")));
        for lock in own.into_iter().chain([PathBuf::from("/repo/Cargo.lock")]) {
            if lock.exists() {
                let _ = std::fs::copy(&lock, dump.join("Cargo.lock"));
                break;
            }
        }
        Ok(())
    })();
    if let Err(e) = setup {
        return Outcome::Unavailable(format!("cannot set up the dump crate: {}", e));
    }
    let tdir = target_dir();
    let out = std::process::Command::new("cargo")
        .args(["build", "--offline", "--quiet"])
        .current_dir(&dump)
        .env("CARGO_TARGET_DIR", &tdir)
        .env("CARGO_NET_OFFLINE", "true")
        .env("RUSTFLAGS", "--cfg unic_locale_verif -Awarnings")
        .env_remove("CARGO_ENCODED_RUSTFLAGS")
        .output();
    let out = match out {
        Ok(o) => o,
        Err(e) => return Outcome::Unavailable(format!("cannot run cargo: {}", e)),
    };
    if !out.status.success() {
        let err = String::from_utf8_lossy(&out.stderr);
        let first = err
            .lines()
            .find(|l| l.starts_with("error"))
            .unwrap_or("error: build failed")
            .to_string();
        let loc = err.lines().find(|l| l.trim_start().starts_with("-->")).unwrap_or("").trim().to_string();
        // a compile error located in the replaced file (or caused by it) is the generator's
        // doing; anything else (lock file, missing crate, disk) is the environment's
        let in_file = err.contains(rel.rsplit('/').next().unwrap_or(rel)) || err.contains("unic-langid-impl/src/");
        return if in_file {
            Outcome::DoesNotCompile(format!("{} {}", first, loc))
        } else {
            Outcome::Unavailable(format!("scratch build failed: {} {}", first, loc))
        };
    }
    let run = std::process::Command::new(tdir.join("debug/ce_dump")).output();
    let run = match run {
        Ok(o) if o.status.success() => o,
        Ok(o) => return Outcome::Unavailable(format!("dump program failed: {}", String::from_utf8_lossy(&o.stderr))),
        Err(e) => return Outcome::Unavailable(format!("cannot run the dump program: {}", e)),
    };
    let text = String::from_utf8_lossy(&run.stdout);
    match parse_items(&text) {
        Ok(items) => Outcome::Tables(items.into_iter().map(|i| (i.name, i.value)).collect()),
        Err(e) => Outcome::Unavailable(format!("dump output unreadable: {}", e)),
    }
}

/// The tables that `text`, put in place of the checked-in file of generator `which`, denotes.
pub fn evaluate(which: &str, text: &str) -> Outcome {
    let key = (which.to_string(), text_digest(text));
    // the lock is held across the build: concurrent workers with the same (usual case: the one
    // and only) output wait for the first compilation instead of repeating it
    let mut c = cache().lock().unwrap_or_else(|e| e.into_inner());
    if let Some(o) = c.get(&key) {
        CACHE_HITS.fetch_add(1, Ordering::Relaxed);
        return o.clone();
    }
    if COMPILED.load(Ordering::Relaxed) >= BUDGET {
        OVER_BUDGET.fetch_add(1, Ordering::Relaxed);
        return Outcome::Unavailable(format!(
            "more than {} distinct generator outputs needed compiling in this process",
            BUDGET
        ));
    }
    COMPILED.fetch_add(1, Ordering::Relaxed);
    let o = build_and_dump(which, text);
    c.insert(key, o.clone());
    o
}
