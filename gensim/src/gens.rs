//! The repository's two generator programs, compiled unmodified from /repo's working tree.
//! Inside these modules the name `std` resolves to the simulator's shadow (see seams.rs) and
//! `println!`/`print!` write to the run's captured stdout.

#[allow(dead_code, unused_imports, unused_macros, clippy::all)]
pub mod layout {
    mod std {
        pub use crate::seams::shadow_std::*;
    }
    macro_rules! println {
        () => { crate::seams::emit(format_args!(""), true) };
        ($($t:tt)*) => { crate::seams::emit(format_args!($($t)*), true) };
    }
    macro_rules! print {
        ($($t:tt)*) => { crate::seams::emit(format_args!($($t)*), false) };
    }
    // the programs are compiled inside the harness crate: compile-time crate paths must still
    // point at the crate they belong to
    macro_rules! env {
        ("CARGO_MANIFEST_DIR") => { "/repo/unic-langid-impl" };
        ($($t:tt)*) => { ::core::env!($($t)*) };
    }
    include!("/repo/unic-langid-impl/src/bin/generate_layout.rs");
    pub fn run() {
        main()
    }
}

#[allow(dead_code, unused_imports, unused_macros, clippy::all)]
pub mod likely {
    mod std {
        pub use crate::seams::shadow_std::*;
    }
    macro_rules! println {
        () => { crate::seams::emit(format_args!(""), true) };
        ($($t:tt)*) => { crate::seams::emit(format_args!($($t)*), true) };
    }
    macro_rules! print {
        ($($t:tt)*) => { crate::seams::emit(format_args!($($t)*), false) };
    }
    // the programs are compiled inside the harness crate: compile-time crate paths must still
    // point at the crate they belong to
    macro_rules! env {
        ("CARGO_MANIFEST_DIR") => { "/repo/unic-langid-impl" };
        ($($t:tt)*) => { ::core::env!($($t)*) };
    }
    include!("/repo/unic-langid-impl/src/bin/generate_likelysubtags.rs");
    pub fn run() {
        main()
    }
}
