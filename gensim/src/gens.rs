//! The repository's two generator programs, compiled from /repo's working tree (copied by build.rs,
//! which only neutralises crate-level inner doc comments / inner attributes that `include!` cannot
//! carry into a module).
//! Inside these modules the name `std` resolves to the simulator's shadow (see seams.rs) and
//! `println!`/`print!` write to the run's captured stdout.

/// (round 13) Could the generator programs be compiled into the simulator? `run.sh` falls back to a
/// build with feature `nogens` when they cannot (a corner of `std` or a dependency the seams do
/// not cover): the check then skips every simulation batch, says so, and judges the real binaries.
pub const AVAILABLE: bool = cfg!(not(feature = "nogens"));

#[cfg(feature = "nogens")]
pub mod layout {
    pub fn __gensim_entry() {
        panic!("generate_layout is not compiled into this build of the simulator");
    }
}
#[cfg(feature = "nogens")]
pub mod likely {
    pub fn __gensim_entry() {
        panic!("generate_likelysubtags is not compiled into this build of the simulator");
    }
}

#[cfg(not(feature = "nogens"))]
#[allow(dead_code, unused_imports, unused_macros, clippy::all)]
pub mod layout {
    mod std {
        pub use crate::seams::shadow_std::*;
        // named, not only globbed: `use std::env;` followed by `env!(..)` inside `concat!` /
        // `include_str!` (eager expansion) needs a determinate resolution of the macro `env`
        pub use crate::seams::shadow_std::env;
    }
    /// crates of the repository's lock file that do I/O or start threads of their own are the
    /// simulator's look-alikes (a name in scope wins over the extern crate in `use` paths)
    mod walkdir {
        pub use crate::seams::shim_walkdir::*;
    }
    mod rayon {
        pub use crate::seams::shim_rayon::*;
    }
    /// (round 15) a library that itself meets the environment is called in its copy behind the
    /// seams (libgen.rs); otherwise this name is the extern crate
    #[cfg(all(gens_use_libgen, feature = "libgen"))]
    mod unic_langid_impl {
        pub use crate::libgen::root::*;
    }
    // std's LocalKey<RefCell<T>>/LocalKey<Cell<T>> conveniences for the engine's thread locals
    use crate::seams::{LocalKeyCellExt as _, LocalKeyRefCellExt as _};
    macro_rules! println {
        () => { crate::seams::emit(format_args!(""), true) };
        ($($t:tt)*) => { crate::seams::emit(format_args!($($t)*), true) };
    }
    macro_rules! print {
        ($($t:tt)*) => { crate::seams::emit(format_args!($($t)*), false) };
    }
    macro_rules! eprintln {
        () => { crate::seams::emit_err(format_args!("")) };
        ($($t:tt)*) => { crate::seams::emit_err(format_args!($($t)*)) };
    }
    macro_rules! eprint {
        ($($t:tt)*) => { crate::seams::emit_err(format_args!($($t)*)) };
    }
    macro_rules! dbg {
        () => { crate::seams::emit_err(format_args!("")) };
        ($v:expr $(,)?) => { match $v { t => { crate::seams::emit_err(format_args!("{:?}", &t)); t } } };
        ($($v:expr),+ $(,)?) => { ($(dbg!($v)),+,) };
    }
    macro_rules! thread_local {
        ($($t:tt)*) => { shuttle::thread_local!{ $($t)* } };
    }
    // compile-time crate paths (`env!("CARGO_MANIFEST_DIR")`) name the repository crate: build.rs
    // overrides that variable for this compilation
    include!(concat!(env!("OUT_DIR"), "/layout/generate_layout.rs"));
    pub fn __gensim_entry() {
        super::MainReturn::finish(main());
        crate::seams::main_returned();
    }
}

#[cfg(not(feature = "nogens"))]
#[allow(dead_code, unused_imports, unused_macros, clippy::all)]
pub mod likely {
    mod std {
        pub use crate::seams::shadow_std::*;
        // named, not only globbed: `use std::env;` followed by `env!(..)` inside `concat!` /
        // `include_str!` (eager expansion) needs a determinate resolution of the macro `env`
        pub use crate::seams::shadow_std::env;
    }
    /// crates of the repository's lock file that do I/O or start threads of their own are the
    /// simulator's look-alikes (a name in scope wins over the extern crate in `use` paths)
    mod walkdir {
        pub use crate::seams::shim_walkdir::*;
    }
    mod rayon {
        pub use crate::seams::shim_rayon::*;
    }
    /// (round 15) a library that itself meets the environment is called in its copy behind the
    /// seams (libgen.rs); otherwise this name is the extern crate
    #[cfg(all(gens_use_libgen, feature = "libgen"))]
    mod unic_langid_impl {
        pub use crate::libgen::root::*;
    }
    // std's LocalKey<RefCell<T>>/LocalKey<Cell<T>> conveniences for the engine's thread locals
    use crate::seams::{LocalKeyCellExt as _, LocalKeyRefCellExt as _};
    macro_rules! println {
        () => { crate::seams::emit(format_args!(""), true) };
        ($($t:tt)*) => { crate::seams::emit(format_args!($($t)*), true) };
    }
    macro_rules! print {
        ($($t:tt)*) => { crate::seams::emit(format_args!($($t)*), false) };
    }
    macro_rules! eprintln {
        () => { crate::seams::emit_err(format_args!("")) };
        ($($t:tt)*) => { crate::seams::emit_err(format_args!($($t)*)) };
    }
    macro_rules! eprint {
        ($($t:tt)*) => { crate::seams::emit_err(format_args!($($t)*)) };
    }
    macro_rules! dbg {
        () => { crate::seams::emit_err(format_args!("")) };
        ($v:expr $(,)?) => { match $v { t => { crate::seams::emit_err(format_args!("{:?}", &t)); t } } };
        ($($v:expr),+ $(,)?) => { ($(dbg!($v)),+,) };
    }
    macro_rules! thread_local {
        ($($t:tt)*) => { shuttle::thread_local!{ $($t)* } };
    }
    // compile-time crate paths (`env!("CARGO_MANIFEST_DIR")`) name the repository crate: build.rs
    // overrides that variable for this compilation
    include!(concat!(env!("OUT_DIR"), "/likely/generate_likelysubtags.rs"));
    pub fn __gensim_entry() {
        super::MainReturn::finish(main());
        crate::seams::main_returned();
    }
}

/// What `fn main()` may return: anything that implements `std::process::Termination` (`()`,
/// `Result<T, E>`, `ExitCode`, a program's own type). A failure status ends the simulated run as a
/// failure, as it would end the process. (`Termination::report` of an `Err` prints the error to
/// the real stderr, as the real runtime would.)
pub trait MainReturn {
    fn finish(self);
}
impl<T: std::process::Termination> MainReturn for T {
    fn finish(self) {
        let code = self.report();
        // ExitCode is opaque; its Debug form tells success from failure
        if format!("{:?}", code) != format!("{:?}", std::process::ExitCode::SUCCESS) {
            panic!("main returned a failure status: {:?}", code);
        }
    }
}
