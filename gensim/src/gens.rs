//! The repository's two generator programs, compiled from /repo's working tree (copied by build.rs,
//! which only neutralises crate-level inner doc comments / inner attributes that `include!` cannot
//! carry into a module).
//! Inside these modules the name `std` resolves to the simulator's shadow (see seams.rs) and
//! `println!`/`print!` write to the run's captured stdout.

#[allow(dead_code, unused_imports, unused_macros, clippy::all)]
pub mod layout {
    mod std {
        pub use crate::seams::shadow_std::*;
    }
    macro_rules! println {
        () => { crate::seams::emit(format_args!(""), true) };
        ($($t:tt)*) => { crate::seams::emit(format_args!($($t)*), true) };
    }
    macro_rules! print {
        ($($t:tt)*) => { crate::seams::emit(format_args!($($t)*), false) };
    }
    macro_rules! eprintln {
        () => { crate::seams::emit_err(format_args!("")) };
        ($($t:tt)*) => { crate::seams::emit_err(format_args!($($t)*)) };
    }
    macro_rules! eprint {
        ($($t:tt)*) => { crate::seams::emit_err(format_args!($($t)*)) };
    }
    macro_rules! dbg {
        () => { crate::seams::emit_err(format_args!("")) };
        ($v:expr $(,)?) => { match $v { t => { crate::seams::emit_err(format_args!("{:?}", &t)); t } } };
        ($($v:expr),+ $(,)?) => { ($(dbg!($v)),+,) };
    }
    macro_rules! thread_local {
        ($($t:tt)*) => { shuttle::thread_local!{ $($t)* } };
    }
    // compile-time crate paths (`env!("CARGO_MANIFEST_DIR")`) name the repository crate: build.rs
    // overrides that variable for this compilation
    include!(concat!(env!("OUT_DIR"), "/generate_layout.rs"));
    pub fn __gensim_entry() {
        super::MainReturn::finish(main());
        crate::seams::main_returned();
    }
}

#[allow(dead_code, unused_imports, unused_macros, clippy::all)]
pub mod likely {
    mod std {
        pub use crate::seams::shadow_std::*;
    }
    macro_rules! println {
        () => { crate::seams::emit(format_args!(""), true) };
        ($($t:tt)*) => { crate::seams::emit(format_args!($($t)*), true) };
    }
    macro_rules! print {
        ($($t:tt)*) => { crate::seams::emit(format_args!($($t)*), false) };
    }
    macro_rules! eprintln {
        () => { crate::seams::emit_err(format_args!("")) };
        ($($t:tt)*) => { crate::seams::emit_err(format_args!($($t)*)) };
    }
    macro_rules! eprint {
        ($($t:tt)*) => { crate::seams::emit_err(format_args!($($t)*)) };
    }
    macro_rules! dbg {
        () => { crate::seams::emit_err(format_args!("")) };
        ($v:expr $(,)?) => { match $v { t => { crate::seams::emit_err(format_args!("{:?}", &t)); t } } };
        ($($v:expr),+ $(,)?) => { ($(dbg!($v)),+,) };
    }
    macro_rules! thread_local {
        ($($t:tt)*) => { shuttle::thread_local!{ $($t)* } };
    }
    // compile-time crate paths (`env!("CARGO_MANIFEST_DIR")`) name the repository crate: build.rs
    // overrides that variable for this compilation
    include!(concat!(env!("OUT_DIR"), "/generate_likelysubtags.rs"));
    pub fn __gensim_entry() {
        super::MainReturn::finish(main());
        crate::seams::main_returned();
    }
}

/// What `fn main()` may return (`()` or `Result<(), E>`): an `Err` ends the process with a
/// failure status in reality, so it ends the simulated run as a failure.
pub trait MainReturn {
    fn finish(self);
}
impl MainReturn for () {
    fn finish(self) {}
}
impl<T: MainReturn, E: std::fmt::Debug> MainReturn for Result<T, E> {
    fn finish(self) {
        match self {
            Ok(t) => t.finish(),
            Err(e) => panic!("main returned Error: {:?}", e),
        }
    }
}
impl MainReturn for std::process::ExitCode {
    fn finish(self) {
        // ExitCode is opaque; its Debug form is stable enough to tell success from failure
        if format!("{:?}", self) != format!("{:?}", std::process::ExitCode::SUCCESS) {
            panic!("main returned a failure exit code: {:?}", self);
        }
    }
}
