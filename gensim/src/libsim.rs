//! (round 11) The repository's *library* compiled a second time, for S7 (concurrent callers):
//! `unic-langid-impl/src/**` (without `bin/`), copied by build.rs, inside a module in which `std`
//! and `core` resolve to shadows whose `sync` (locks, atomics, `Once`, `OnceLock`, `LazyLock`),
//! `thread` and `thread_local!` are the thread engine's. The pinned library has none of these —
//! its lookups read immutable statics — so under the engine a lookup is one uninterrupted step;
//! a library that grows process-wide state (a memo in atomics, an index behind a lock, a lazily
//! initialised table) gets a scheduling point at every one of those operations, and the
//! simulator decides which caller thread proceeds.
//!
//! Everything else the simulator does (S1–S6, the generators) keeps using the real crate, built
//! the ordinary way as a path dependency.

#![allow(dead_code)]

/// what the library's `std` resolves to
#[allow(unused_imports)]
pub mod lib_std {
    pub use ::std::*;
    pub use shuttle::thread_local;

    /// `spin_loop()` gives the CPU to the thread a busy-wait loop is waiting for
    pub mod hint {
        pub use shuttle::hint::*;
    }

    pub mod thread {
        pub use ::std::thread::*;
        // the simulator's own scoped threads and builder (seams.rs: the engine's `scope` returns
        // early when nested, its `Builder` has no `spawn_scoped`, its `JoinHandle` no
        // `is_finished`); none of them needs a simulated world
        pub use crate::seams::simthread::{scope, spawn, Builder, JoinHandle, Scope, ScopedJoinHandle};
        pub use shuttle::thread::{current, park, park_timeout, sleep, yield_now, LocalKey, Thread, ThreadId};
    }

    pub mod sync {
        pub use super::super::once::{LazyLock, OnceLock};
        pub use ::std::sync::*;
        pub use shuttle::sync::{
            Barrier, BarrierWaitResult, Condvar, Mutex, MutexGuard, Once, OnceState, RwLock, RwLockReadGuard, RwLockWriteGuard,
            WaitTimeoutResult,
        };
        pub mod atomic {
            pub use shuttle::sync::atomic::*;
        }
        pub mod mpsc {
            pub use shuttle::sync::mpsc::*;
        }
    }
}

/// what the library's `core` resolves to (`core::sync::atomic` is the one part of `core` with
/// state shared between threads)
#[allow(unused_imports)]
pub mod lib_core {
    pub use ::core::*;
    pub mod hint {
        pub use shuttle::hint::*;
    }
    pub mod sync {
        pub use ::core::sync::*;
        pub mod atomic {
            pub use shuttle::sync::atomic::*;
        }
    }
}

/// `once_cell` (in the repository's lock file) by name: its `sync` types block OS threads
#[allow(unused_imports)]
pub mod lib_once_cell {
    pub use ::once_cell::*;
    pub mod sync {
        pub use super::super::once::LazyLock as Lazy;
        pub use super::super::once::OnceLock as OnceCell;
    }
}

/// `OnceLock` / `LazyLock` over the engine's `Once`: std's block the OS thread when two callers
/// race for the initialisation, and under the engine all simulated threads share one OS thread.
pub mod once {
    use shuttle::sync::Once;
    use std::cell::UnsafeCell;

    pub struct OnceLock<T> {
        once: Once,
        v: UnsafeCell<Option<T>>,
    }
    unsafe impl<T: Send + Sync> Sync for OnceLock<T> {}
    unsafe impl<T: Send> Send for OnceLock<T> {}
    impl<T> Default for OnceLock<T> {
        fn default() -> Self {
            Self::new()
        }
    }
    impl<T: std::fmt::Debug> std::fmt::Debug for OnceLock<T> {
        fn fmt(&self, f: &mut std::fmt::Formatter<'_>) -> std::fmt::Result {
            f.debug_tuple("OnceLock").field(&self.get()).finish()
        }
    }
    impl<T> OnceLock<T> {
        pub const fn new() -> Self {
            OnceLock {
                once: Once::new(),
                v: UnsafeCell::new(None),
            }
        }
        pub fn get(&self) -> Option<&T> {
            if self.once.is_completed() {
                unsafe { (*self.v.get()).as_ref() }
            } else {
                None
            }
        }
        pub fn get_mut(&mut self) -> Option<&mut T> {
            self.v.get_mut().as_mut()
        }
        pub fn set(&self, value: T) -> Result<(), T> {
            let mut slot = Some(value);
            self.once.call_once(|| unsafe { *self.v.get() = slot.take() });
            match slot {
                None => Ok(()),
                Some(v) => Err(v),
            }
        }
        pub fn get_or_init<F: FnOnce() -> T>(&self, f: F) -> &T {
            self.once.call_once(|| {
                let v = f();
                unsafe { *self.v.get() = Some(v) }
            });
            unsafe { (*self.v.get()).as_ref().expect("OnceLock initialised") }
        }
        pub fn into_inner(self) -> Option<T> {
            self.v.into_inner()
        }
        pub fn take(&mut self) -> Option<T> {
            let v = self.v.get_mut().take();
            self.once = Once::new();
            v
        }
    }

    pub struct LazyLock<T, F = fn() -> T> {
        cell: OnceLock<T>,
        init: UnsafeCell<Option<F>>,
    }
    unsafe impl<T: Send + Sync, F: Send> Sync for LazyLock<T, F> {}
    impl<T, F: FnOnce() -> T> LazyLock<T, F> {
        pub const fn new(f: F) -> Self {
            LazyLock {
                cell: OnceLock::new(),
                init: UnsafeCell::new(Some(f)),
            }
        }
        pub fn force(this: &Self) -> &T {
            this.cell.get_or_init(|| {
                let f = unsafe { (*this.init.get()).take() }.expect("LazyLock initialiser");
                f()
            })
        }
    }
    impl<T, F: FnOnce() -> T> std::ops::Deref for LazyLock<T, F> {
        type Target = T;
        fn deref(&self) -> &T {
            LazyLock::force(self)
        }
    }
}

#[allow(dead_code, unused_imports, unused_macros, clippy::all, unexpected_cfgs)]
pub mod root {
    mod std {
        pub use crate::libsim::lib_std::*;
    }
    mod core {
        pub use crate::libsim::lib_core::*;
    }
    mod once_cell {
        pub use crate::libsim::lib_once_cell::*;
    }
    macro_rules! thread_local {
        ($($t:tt)*) => { shuttle::thread_local!{ $($t)* } };
    }
    macro_rules! lazy_static {
        ($($t:tt)*) => { shuttle::lazy_static!{ $($t)* } };
    }
    include!(concat!(env!("OUT_DIR"), "/libsim/lib.rs"));
}
