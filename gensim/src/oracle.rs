//! Oracles for C18.
//!
//! * `compiled()`   — the tables the library was actually compiled with (read through hook H1).
//! * `reference()`  — an independent re-derivation from the CLDR JSON files (own subtag splitter,
//!                    own little-endian packer; does not use the library's parser or conversions).
//! * `static_checks` — S1 (compiled == reference), S2 (strictly increasing), S3 (integers decode to
//!                    well-formed subtags), S4 (every row is found by the real lookup).
//! * `check_output` — R2: what a generator printed == compiled tables.

use crate::rsparse::{parse_items, Item, Val};
use crate::world::FsImage;
use std::collections::{BTreeMap, BTreeSet, HashMap};
use std::sync::OnceLock;
use unic_langid_impl::likelysubtags as ls;
use unic_langid_impl::subtags;
use unic_langid_impl::verif_tables as lt;

pub const LIKELY_TABLES: [&str; 6] = [
    "LANG_ONLY",
    "LANG_REGION",
    "LANG_SCRIPT",
    "SCRIPT_REGION",
    "SCRIPT_ONLY",
    "REGION_ONLY",
];
pub const LIKELY_ITEMS: [&str; 7] = [
    "CLDR_VERSION",
    "LANG_ONLY",
    "LANG_REGION",
    "LANG_SCRIPT",
    "SCRIPT_REGION",
    "SCRIPT_ONLY",
    "REGION_ONLY",
];
pub const LAYOUT_ITEMS: [&str; 4] = [
    "SCRIPTS_CHARACTER_DIRECTION_LTR",
    "SCRIPTS_CHARACTER_DIRECTION_RTL",
    "SCRIPTS_CHARACTER_DIRECTION_TTB",
    "LANGS_CHARACTER_DIRECTION_RTL",
];

#[derive(Clone, Debug, PartialEq, Eq, PartialOrd, Ord)]
pub struct Violation {
    /// oracle clause: S1..S4, R1, R2
    pub class: String,
    /// table / item concerned ("-" if none)
    pub table: String,
    /// stable identity used for known-findings matching and for "same violation class" in the
    /// minimiser: class:table:kind[:key]
    pub signature: String,
    pub detail: String,
}

fn viol(class: &str, table: &str, kind: &str, key: &str, detail: String) -> Violation {
    let signature = if key.is_empty() {
        format!("{}:{}:{}", class, table, kind)
    } else {
        format!("{}:{}:{}:{}", class, table, kind, key)
    };
    Violation {
        class: class.to_string(),
        table: table.to_string(),
        signature,
        detail,
    }
}

// ---------------------------------------------------------------------------------------------
// compiled statics -> Val
// ---------------------------------------------------------------------------------------------

fn o64(o: Option<u64>) -> Val {
    match o {
        Some(v) => Val::Some(Box::new(Val::Int(v as u128))),
        None => Val::None,
    }
}
fn o32(o: Option<u32>) -> Val {
    match o {
        Some(v) => Val::Some(Box::new(Val::Int(v as u128))),
        None => Val::None,
    }
}
fn v3(v: (Option<u64>, Option<u32>, Option<u32>)) -> Val {
    Val::Tuple(vec![o64(v.0), o32(v.1), o32(v.2)])
}

pub fn compiled() -> BTreeMap<String, Val> {
    let mut m = BTreeMap::new();
    m.insert("CLDR_VERSION".to_string(), Val::Str(ls::CLDR_VERSION.to_string()));
    m.insert(
        "LANG_ONLY".to_string(),
        Val::Array(
            ls::LANG_ONLY
                .iter()
                .map(|(k, v)| Val::Tuple(vec![Val::Int(*k as u128), v3(*v)]))
                .collect(),
        ),
    );
    m.insert(
        "LANG_REGION".to_string(),
        Val::Array(
            ls::LANG_REGION
                .iter()
                .map(|(a, b, v)| Val::Tuple(vec![Val::Int(*a as u128), Val::Int(*b as u128), v3(*v)]))
                .collect(),
        ),
    );
    m.insert(
        "LANG_SCRIPT".to_string(),
        Val::Array(
            ls::LANG_SCRIPT
                .iter()
                .map(|(a, b, v)| Val::Tuple(vec![Val::Int(*a as u128), Val::Int(*b as u128), v3(*v)]))
                .collect(),
        ),
    );
    m.insert(
        "SCRIPT_REGION".to_string(),
        Val::Array(
            ls::SCRIPT_REGION
                .iter()
                .map(|(a, b, v)| Val::Tuple(vec![Val::Int(*a as u128), Val::Int(*b as u128), v3(*v)]))
                .collect(),
        ),
    );
    m.insert(
        "SCRIPT_ONLY".to_string(),
        Val::Array(
            ls::SCRIPT_ONLY
                .iter()
                .map(|(k, v)| Val::Tuple(vec![Val::Int(*k as u128), v3(*v)]))
                .collect(),
        ),
    );
    m.insert(
        "REGION_ONLY".to_string(),
        Val::Array(
            ls::REGION_ONLY
                .iter()
                .map(|(k, v)| Val::Tuple(vec![Val::Int(*k as u128), v3(*v)]))
                .collect(),
        ),
    );
    let arr32 = |a: &[u32]| Val::Array(a.iter().map(|x| Val::Int(*x as u128)).collect());
    m.insert(
        "SCRIPTS_CHARACTER_DIRECTION_LTR".to_string(),
        arr32(&lt::SCRIPTS_CHARACTER_DIRECTION_LTR),
    );
    m.insert(
        "SCRIPTS_CHARACTER_DIRECTION_RTL".to_string(),
        arr32(&lt::SCRIPTS_CHARACTER_DIRECTION_RTL),
    );
    m.insert(
        "SCRIPTS_CHARACTER_DIRECTION_TTB".to_string(),
        arr32(&lt::SCRIPTS_CHARACTER_DIRECTION_TTB),
    );
    m.insert(
        "LANGS_CHARACTER_DIRECTION_RTL".to_string(),
        Val::Array(
            lt::LANGS_CHARACTER_DIRECTION_RTL
                .iter()
                .map(|x| Val::Int(*x as u128))
                .collect(),
        ),
    );
    m
}

// ---------------------------------------------------------------------------------------------
// independent reference model
// ---------------------------------------------------------------------------------------------

#[derive(Clone, Debug, Default, PartialEq, Eq)]
pub struct Lid {
    /// None = und
    pub lang: Option<String>,
    pub script: Option<String>,
    pub region: Option<String>,
    pub variants: Vec<String>,
}

fn all(s: &str, f: impl Fn(u8) -> bool) -> bool {
    s.bytes().all(f)
}

/// Own reading of the UTS #35 unicode_language_id production (no extensions).
pub fn split_langid(s: &str) -> Result<Lid, String> {
    let parts: Vec<&str> = s.split(|c| c == '-' || c == '_').collect();
    let mut it = parts.into_iter().peekable();
    let mut lid = Lid::default();
    let first = it.next().ok_or("empty")?;
    let n = first.len();
    if !((2..=3).contains(&n) || (5..=8).contains(&n)) || !all(first, |b| b.is_ascii_alphabetic()) {
        return Err(format!("{:?}: first subtag is not a language", s));
    }
    let l = first.to_ascii_lowercase();
    lid.lang = if l == "und" { None } else { Some(l) };
    if let Some(p) = it.peek() {
        if p.len() == 4 && all(p, |b| b.is_ascii_alphabetic()) {
            let lower = p.to_ascii_lowercase();
            let mut t = String::new();
            t.push(lower.as_bytes()[0].to_ascii_uppercase() as char);
            t.push_str(&lower[1..]);
            lid.script = Some(t);
            it.next();
        }
    }
    if let Some(p) = it.peek() {
        if (p.len() == 2 && all(p, |b| b.is_ascii_alphabetic())) || (p.len() == 3 && all(p, |b| b.is_ascii_digit())) {
            lid.region = Some(p.to_ascii_uppercase());
            it.next();
        }
    }
    for p in it {
        let ok = ((5..=8).contains(&p.len()) && all(p, |b| b.is_ascii_alphanumeric()))
            || (p.len() == 4 && p.as_bytes()[0].is_ascii_digit() && all(p, |b| b.is_ascii_alphanumeric()));
        if !ok {
            return Err(format!("{:?}: subtag {:?} is not a variant", s, p));
        }
        lid.variants.push(p.to_ascii_lowercase());
    }
    Ok(lid)
}

// ---- integer form of subtags ----------------------------------------------------------------
// The reference model packs subtags itself (little-endian ASCII, zero padded: how TinyStr lays a
// string out). Should the library ever change its integer representation *consistently*
// (conversions, unchecked constructors, generators and regenerated tables all together), the
// property would still hold while an own-packer comparison would cry wolf. So at start-up the
// own packer is compared with the library's conversions on every subtag occurring in the CLDR
// data; only if they disagree does the reference fall back to the library's conversions (recorded
// in evidence as `reference_packer`). A one-sided change (conversion changed, tables not
// regenerated) is still caught then: by S1 under the library packing and by R2.

#[derive(Clone, Copy, PartialEq, Eq, Debug)]
pub enum Kind {
    Lang,
    Script,
    Region,
}

pub struct Packer {
    pub fallback: bool,
    rev: [HashMap<u128, String>; 3],
    /// the integer under which LANG_ONLY holds the bare `und` key (see `und_key`)
    und: u128,
}

static PACKER: OnceLock<Packer> = OnceLock::new();

fn lib_pack(kind: Kind, s: &str) -> Option<u128> {
    match kind {
        Kind::Lang => {
            let l = subtags::Language::from_bytes(s.as_bytes()).ok()?;
            let v: Option<u64> = l.into();
            v.map(|x| x as u128)
        }
        Kind::Script => subtags::Script::from_bytes(s.as_bytes()).ok().map(|x| u32::from(x) as u128),
        Kind::Region => subtags::Region::from_bytes(s.as_bytes()).ok().map(|x| u32::from(x) as u128),
    }
}

/// Decide which packer the reference uses; call once before `reference()`.
pub fn init_packer(img: &FsImage) -> &'static Packer {
    PACKER.get_or_init(|| {
        let mut subs: BTreeSet<(u8, String)> = BTreeSet::new();
        let mut add = |l: &Lid| {
            if let Some(x) = &l.lang {
                subs.insert((0, x.clone()));
            }
            if let Some(x) = &l.script {
                subs.insert((1, x.clone()));
            }
            if let Some(x) = &l.region {
                subs.insert((2, x.clone()));
            }
        };
        if let Some(raw) = img.files.get("data/likelySubtags.json") {
            if let Ok(v) = serde_json::from_slice::<serde_json::Value>(raw) {
                if let Some(o) = v["supplemental"]["likelySubtags"].as_object() {
                    for (k, val) in o {
                        if let Ok(l) = split_langid(k) {
                            add(&l);
                        }
                        if let Some(Ok(l)) = val.as_str().map(split_langid) {
                            add(&l);
                        }
                    }
                }
            }
        }
        if let Some(d) = img.dirs.get("data/cldr-misc-full/main") {
            for (name, _) in d {
                if let Ok(l) = split_langid(name) {
                    add(&l);
                }
            }
        }
        let kinds = [Kind::Lang, Kind::Script, Kind::Region];
        let mut fallback = false;
        for (k, s) in &subs {
            if let Some(v) = lib_pack(kinds[*k as usize], s) {
                if v != own_pack(s) {
                    fallback = true;
                }
            }
        }
        let mut rev = [HashMap::new(), HashMap::new(), HashMap::new()];
        let mut und = own_pack("und");
        if fallback {
            for (k, s) in &subs {
                if let Some(v) = lib_pack(kinds[*k as usize], s) {
                    rev[*k as usize].insert(v, s.clone());
                }
            }
            // The bare `und` key of LANG_ONLY has no integer form in the library (`und` is the
            // empty language there): the pinned generator spells it out as the little-endian
            // bytes of "und"; under another packing (round 12, control `q6_r1`: six bits per
            // character) a consistent generator spells it in *its* packing. It is the one key of
            // the compiled LANG_ONLY that is not the library's integer form of a CLDR language —
            // if there is exactly one such key; otherwise the pinned spelling stands and S1
            // reports what does not fit.
            let foreign: Vec<u128> = unic_langid_impl::likelysubtags::LANG_ONLY
                .iter()
                .map(|(k, _)| *k as u128)
                .filter(|k| !rev[0].contains_key(k))
                .collect();
            if foreign.len() == 1 {
                und = foreign[0];
            }
            rev[0].insert(und, "und".to_string());
        }
        Packer { fallback, rev, und }
    })
}

fn packer_fallback() -> Option<&'static Packer> {
    PACKER.get().filter(|p| p.fallback)
}

pub fn pack_kind(kind: Kind, s: &str) -> u128 {
    match packer_fallback() {
        Some(_) => lib_pack(kind, s).unwrap_or_else(|| own_pack(s)),
        None => own_pack(s),
    }
}

/// the integer of the bare `und` key of LANG_ONLY
pub fn und_key() -> u128 {
    PACKER.get().map(|p| p.und).unwrap_or_else(|| own_pack("und"))
}

/// little-endian packing of an ASCII subtag, zero padded (how TinyStr lays a string out)
pub fn own_pack(s: &str) -> u128 {
    let mut v: u128 = 0;
    for (i, b) in s.bytes().enumerate() {
        v |= (b as u128) << (8 * i);
    }
    v
}

fn unpack(v: u128, width: usize) -> Result<String, String> {
    if width < 16 && (v >> (8 * width)) != 0 {
        return Err(format!("{} does not fit {} bytes", v, width));
    }
    let bytes: Vec<u8> = (0..width).map(|i| ((v >> (8 * i)) & 0xff) as u8).collect();
    let len = bytes.iter().position(|&b| b == 0).unwrap_or(width);
    if bytes[len..].iter().any(|&b| b != 0) {
        return Err(format!("{} has a non-zero byte after a NUL", v));
    }
    if len == 0 {
        return Err(format!("{} decodes to the empty string", v));
    }
    if !bytes[..len].iter().all(|b| b.is_ascii()) {
        return Err(format!("{} has a non-ASCII byte", v));
    }
    Ok(String::from_utf8(bytes[..len].to_vec()).unwrap())
}

pub fn decode_lang(v: u128) -> Result<String, String> {
    if let Some(p) = packer_fallback() {
        return p.rev[Kind::Lang as usize]
            .get(&v)
            .cloned()
            .ok_or_else(|| format!("{} is not the library's integer form of any CLDR subtag of that type", v));
    }
    let s = unpack(v, 8)?;
    let n = s.len();
    if ((2..=3).contains(&n) || (5..=8).contains(&n)) && all(&s, |b| b.is_ascii_lowercase()) {
        Ok(s)
    } else {
        Err(format!("{} decodes to {:?}, not a canonical language subtag", v, s))
    }
}
pub fn decode_script(v: u128) -> Result<String, String> {
    if let Some(p) = packer_fallback() {
        return p.rev[Kind::Script as usize]
            .get(&v)
            .cloned()
            .ok_or_else(|| format!("{} is not the library's integer form of any CLDR subtag of that type", v));
    }
    let s = unpack(v, 4)?;
    let b = s.as_bytes();
    if b.len() == 4 && b[0].is_ascii_uppercase() && b[1..].iter().all(|c| c.is_ascii_lowercase()) {
        Ok(s)
    } else {
        Err(format!("{} decodes to {:?}, not a canonical script subtag", v, s))
    }
}
pub fn decode_region(v: u128) -> Result<String, String> {
    if let Some(p) = packer_fallback() {
        return p.rev[Kind::Region as usize]
            .get(&v)
            .cloned()
            .ok_or_else(|| format!("{} is not the library's integer form of any CLDR subtag of that type", v));
    }
    let s = unpack(v, 4)?;
    let n = s.len();
    if (n == 2 && all(&s, |b| b.is_ascii_uppercase())) || (n == 3 && all(&s, |b| b.is_ascii_digit())) {
        Ok(s)
    } else {
        Err(format!("{} decodes to {:?}, not a canonical region subtag", v, s))
    }
}

fn some_int(kind: Kind, o: &Option<String>) -> Val {
    match o {
        Some(s) => Val::Some(Box::new(Val::Int(pack_kind(kind, s)))),
        None => Val::None,
    }
}

pub struct Reference {
    pub items: BTreeMap<String, Val>,
    /// CLDR key text of each likely-subtags row, by (table, row key ints)
    pub key_text: BTreeMap<(String, Vec<u128>), String>,
    /// CLDR keys whose shape no table can hold
    pub unplaceable: Vec<String>,
    /// (table, later CLDR key, earlier CLDR key) whose integer keys coincide: the tables cannot
    /// hold "exactly one entry per CLDR key" and stay strictly increasing
    pub colliding: Vec<(String, String, String)>,
    /// locale name -> (Lid, direction) from the layout files
    pub locales: BTreeMap<String, (Lid, String)>,
}

pub fn reference(img: &FsImage) -> Result<Reference, String> {
    let mut items: BTreeMap<String, Val> = BTreeMap::new();
    let mut key_text = BTreeMap::new();
    let mut unplaceable = vec![];
    let mut colliding = vec![];

    // ---- likely subtags
    let raw = img
        .files
        .get("data/likelySubtags.json")
        .ok_or("data/likelySubtags.json missing from the working tree")?;
    let v: serde_json::Value =
        serde_json::from_slice(raw).map_err(|e| format!("data/likelySubtags.json: {}", e))?;
    let sup = &v["supplemental"];
    let version = sup["version"]["_cldrVersion"]
        .as_str()
        .ok_or("likelySubtags.json: no supplemental.version._cldrVersion string")?;
    items.insert("CLDR_VERSION".into(), Val::Str(version.to_string()));
    let entries = sup["likelySubtags"]
        .as_object()
        .ok_or("likelySubtags.json: supplemental.likelySubtags is not an object")?;
    let mut tabs: BTreeMap<&str, BTreeMap<Vec<u128>, Val>> = BTreeMap::new();
    for t in LIKELY_TABLES {
        tabs.insert(t, BTreeMap::new());
    }
    for (k, val) in entries {
        let key = split_langid(k).map_err(|e| format!("likelySubtags key: {}", e))?;
        let vs = val
            .as_str()
            .ok_or_else(|| format!("likelySubtags value of {:?} is not a string", k))?;
        let mut value = split_langid(vs).map_err(|e| format!("likelySubtags value: {}", e))?;
        if value.region.as_deref() == Some("ZZ") {
            value.region = None;
        }
        let v3 = Val::Tuple(vec![
            some_int(Kind::Lang, &value.lang),
            some_int(Kind::Script, &value.script),
            some_int(Kind::Region, &value.region),
        ]);
        let (table, ints): (&str, Vec<u128>) = match (&key.lang, &key.script, &key.region) {
            // the bare `und` key: the generator spells this integer out as the little-endian bytes of "und"
            (None, None, None) => ("LANG_ONLY", vec![und_key()]),
            (Some(l), None, None) => ("LANG_ONLY", vec![pack_kind(Kind::Lang, l)]),
            (Some(l), None, Some(r)) => ("LANG_REGION", vec![pack_kind(Kind::Lang, l), pack_kind(Kind::Region, r)]),
            (Some(l), Some(s), None) => ("LANG_SCRIPT", vec![pack_kind(Kind::Lang, l), pack_kind(Kind::Script, s)]),
            (None, Some(s), Some(r)) => ("SCRIPT_REGION", vec![pack_kind(Kind::Script, s), pack_kind(Kind::Region, r)]),
            (None, Some(s), None) => ("SCRIPT_ONLY", vec![pack_kind(Kind::Script, s)]),
            (None, None, Some(r)) => ("REGION_ONLY", vec![pack_kind(Kind::Region, r)]),
            (Some(_), Some(_), Some(_)) => {
                unplaceable.push(k.clone());
                continue;
            }
        };
        if tabs.get_mut(table).unwrap().insert(ints.clone(), v3).is_some() {
            // two spellings of one key in the data (e.g. `und-KZ` and `und_KZ`): reported as a
            // violation of the property by the static checks, not as a harness failure
            let earlier = key_text.get(&(table.to_string(), ints.clone())).cloned().unwrap_or_default();
            colliding.push((table.to_string(), k.clone(), earlier));
        }
        key_text.insert((table.to_string(), ints), k.clone());
    }
    for t in LIKELY_TABLES {
        // BTreeMap<Vec<u128>> iterates in lexicographic integer order = the (u64, u32) tuple order
        let rows: Vec<Val> = tabs[t]
            .iter()
            .map(|(ints, v3)| {
                let mut row: Vec<Val> = ints.iter().map(|i| Val::Int(*i)).collect();
                row.push(v3.clone());
                Val::Tuple(row)
            })
            .collect();
        items.insert(t.to_string(), Val::Array(rows));
    }

    // ---- layout
    let main = "data/cldr-misc-full/main";
    let dirs = img
        .dirs
        .get(main)
        .ok_or("data/cldr-misc-full/main missing from the working tree")?;
    let mut sets: BTreeMap<&str, BTreeSet<u128>> = BTreeMap::new();
    for n in LAYOUT_ITEMS {
        sets.insert(n, BTreeSet::new());
    }
    let mut locales = BTreeMap::new();
    for (name, _is_dir) in dirs {
        let path = format!("{}/{}/layout.json", main, name);
        let raw = img
            .files
            .get(&path)
            .ok_or_else(|| format!("{} missing from the working tree", path))?;
        let v: serde_json::Value = serde_json::from_slice(raw).map_err(|e| format!("{}: {}", path, e))?;
        let mainobj = v["main"]
            .as_object()
            .ok_or_else(|| format!("{}: no main object", path))?;
        if mainobj.len() != 1 {
            return Err(format!("{}: main has {} keys, expected 1", path, mainobj.len()));
        }
        let (loc, body) = mainobj.iter().next().unwrap();
        if loc == "root" {
            continue;
        }
        let lid = split_langid(loc).map_err(|e| format!("{}: {}", path, e))?;
        let dir = body["layout"]["orientation"]["characterOrder"]
            .as_str()
            .ok_or_else(|| format!("{}: no characterOrder", path))?;
        let set_name = match dir {
            "left-to-right" => "SCRIPTS_CHARACTER_DIRECTION_LTR",
            "right-to-left" => "SCRIPTS_CHARACTER_DIRECTION_RTL",
            "top-to-bottom" => "SCRIPTS_CHARACTER_DIRECTION_TTB",
            o => return Err(format!("{}: unknown characterOrder {:?}", path, o)),
        };
        if let Some(s) = &lid.script {
            sets.get_mut(set_name).unwrap().insert(pack_kind(Kind::Script, s));
        }
        if dir == "right-to-left" {
            match &lid.lang {
                Some(l) => {
                    sets.get_mut("LANGS_CHARACTER_DIRECTION_RTL").unwrap().insert(pack_kind(Kind::Lang, l));
                }
                None => return Err(format!("{}: right-to-left locale with undetermined language", path)),
            }
        }
        locales.insert(loc.clone(), (lid, dir.to_string()));
    }
    for n in LAYOUT_ITEMS {
        items.insert(
            n.to_string(),
            Val::Array(sets[n].iter().map(|i| Val::Int(*i)).collect()),
        );
    }
    Ok(Reference {
        items,
        key_text,
        unplaceable,
        colliding,
        locales,
    })
}

// ---------------------------------------------------------------------------------------------
// comparisons
// ---------------------------------------------------------------------------------------------

fn row_key(row: &Val) -> Vec<u128> {
    match row {
        Val::Tuple(v) => v
            .iter()
            .take(v.len().saturating_sub(1))
            .filter_map(|x| if let Val::Int(i) = x { Some(*i) } else { None })
            .collect(),
        _ => vec![],
    }
}

fn key_label(table: &str, k: &[u128]) -> String {
    let dec = |i: usize, v: u128| -> String {
        let r = match (table, i) {
            ("LANG_ONLY", 0) | ("LANG_REGION", 0) | ("LANG_SCRIPT", 0) => decode_lang(v),
            ("LANG_REGION", 1) | ("SCRIPT_REGION", 1) | ("REGION_ONLY", 0) => decode_region(v),
            _ => decode_script(v),
        };
        r.unwrap_or_else(|_| format!("#{}", v))
    };
    k.iter().enumerate().map(|(i, v)| dec(i, *v)).collect::<Vec<_>>().join("-")
}

/// Compare two sequence tables row by row; produce at most `cap` violations.
fn compare_seq(
    class: &str,
    table: &str,
    left_name: &str,
    left: &[Val],
    right_name: &str,
    right: &[Val],
    out: &mut Vec<Violation>,
    cap: usize,
) {
    if left == right {
        return;
    }
    let lmap: BTreeMap<Vec<u128>, &Val> = left.iter().map(|r| (row_key(r), r)).collect();
    let rmap: BTreeMap<Vec<u128>, &Val> = right.iter().map(|r| (row_key(r), r)).collect();
    let mut n = 0;
    for (k, lv) in &lmap {
        if n >= cap {
            break;
        }
        match rmap.get(k) {
            None => {
                out.push(viol(
                    class,
                    table,
                    "extra-row",
                    &key_label(table, k),
                    format!("{} has row {} that {} lacks", left_name, lv, right_name),
                ));
                n += 1;
            }
            Some(rv) if rv != lv => {
                out.push(viol(
                    class,
                    table,
                    "wrong-value",
                    &key_label(table, k),
                    format!("{} has {} but {} has {}", left_name, lv, right_name, rv),
                ));
                n += 1;
            }
            _ => {}
        }
    }
    for (k, rv) in &rmap {
        if n >= cap {
            break;
        }
        if !lmap.contains_key(k) {
            out.push(viol(
                class,
                table,
                "missing-row",
                &key_label(table, k),
                format!("{} lacks row {} that {} has", left_name, rv, right_name),
            ));
            n += 1;
        }
    }
    if n == 0 {
        // same rows as a map, different sequence: duplicates or order
        if left.len() != right.len() {
            out.push(viol(
                class,
                table,
                "duplicate-rows",
                "",
                format!(
                    "{} has {} rows, {} has {} (same key set)",
                    left_name,
                    left.len(),
                    right_name,
                    right.len()
                ),
            ));
        } else {
            let i = left.iter().zip(right.iter()).position(|(a, b)| a != b).unwrap();
            out.push(viol(
                class,
                table,
                "order",
                "",
                format!(
                    "row {} differs: {} has {} where {} has {} (same rows, different order)",
                    i, left_name, left[i], right_name, right[i]
                ),
            ));
        }
    }
}

fn as_array<'a>(v: Option<&'a Val>) -> Option<&'a [Val]> {
    match v {
        Some(Val::Array(a)) => Some(a),
        _ => None,
    }
}

fn compare_set(
    class: &str,
    table: &str,
    left_name: &str,
    left: &[Val],
    right_name: &str,
    right: &[Val],
    out: &mut Vec<Violation>,
) {
    let l: BTreeSet<&Val> = left.iter().collect();
    let r: BTreeSet<&Val> = right.iter().collect();
    let is_lang = table.starts_with("LANGS");
    let label = |v: &Val| -> String {
        if let Val::Int(i) = v {
            let d = if is_lang { decode_lang(*i) } else { decode_script(*i) };
            d.unwrap_or_else(|_| format!("#{}", i))
        } else {
            format!("{}", v)
        }
    };
    for x in l.difference(&r) {
        out.push(viol(
            class,
            table,
            "extra-member",
            &label(x),
            format!("{} contains {} ({}) which {} does not", left_name, x, label(x), right_name),
        ));
    }
    for x in r.difference(&l) {
        out.push(viol(
            class,
            table,
            "missing-member",
            &label(x),
            format!("{} lacks {} ({}) which {} contains", left_name, x, label(x), right_name),
        ));
    }
}

/// S1–S4, evaluated once per process on the compiled tables.
pub struct StaticReport {
    pub violations: Vec<Violation>,
    pub rows_checked: u64,
    pub ints_decoded: u64,
    pub lookups: u64,
    /// maximize calls made for S4 (every row in table order, in reverse order, and after neighbouring misses)
    pub lookup_queries: u64,
    /// S4 pass 0: forked children, each with another first lookup of the process
    pub fresh_process_children: u64,
    /// S6: character_direction queries (cold, ascending sweep, descending sweep)
    pub direction_queries: u64,
    pub lookups_found: u64,
    /// tables where *no* row was reachable through the lookup (not attributable to ordering;
    /// reported, not gating)
    pub unreachable_tables: Vec<String>,
}

pub fn static_checks(comp: &BTreeMap<String, Val>, rf: &Reference) -> StaticReport {
    let mut out = vec![];
    let cap = 5;
    let mut rows_checked = 0u64;
    let mut ints_decoded = 0u64;

    // S1: compiled == reference
    for k in &rf.unplaceable {
        out.push(viol(
            "S1",
            "-",
            "unplaceable-key",
            k,
            format!("CLDR key {:?} has language, script and region: no table can hold it", k),
        ));
    }
    for (table, later, earlier) in &rf.colliding {
        out.push(viol(
            "S1",
            table,
            "colliding-keys",
            later,
            format!(
                "CLDR keys {:?} and {:?} have the same integer key in {}: the table cannot hold one entry per CLDR key and be strictly increasing",
                earlier, later, table
            ),
        ));
    }
    match (comp.get("CLDR_VERSION"), rf.items.get("CLDR_VERSION")) {
        (Some(a), Some(b)) if a == b => {}
        (a, b) => out.push(viol(
            "S1",
            "CLDR_VERSION",
            "version",
            "",
            format!(
                "compiled CLDR_VERSION is {} but data/likelySubtags.json says {}",
                a.map(|v| v.to_string()).unwrap_or_default(),
                b.map(|v| v.to_string()).unwrap_or_default()
            ),
        )),
    }
    for t in LIKELY_TABLES {
        let c = as_array(comp.get(t)).unwrap_or(&[]);
        let r = as_array(rf.items.get(t)).unwrap_or(&[]);
        rows_checked += c.len() as u64;
        compare_seq("S1", t, "compiled table", c, "CLDR-derived reference", r, &mut out, cap);
    }
    for t in LAYOUT_ITEMS {
        let c = as_array(comp.get(t)).unwrap_or(&[]);
        let r = as_array(rf.items.get(t)).unwrap_or(&[]);
        rows_checked += c.len() as u64;
        compare_set("S1", t, "compiled table", c, "CLDR-derived reference", r, &mut out);
    }

    // S2: strictly increasing in the natural integer (tuple) order
    for t in LIKELY_TABLES {
        let c = as_array(comp.get(t)).unwrap_or(&[]);
        let mut n = 0;
        for i in 1..c.len() {
            let (a, b) = (row_key(&c[i - 1]), row_key(&c[i]));
            if a >= b && n < cap {
                n += 1;
                out.push(viol(
                    "S2",
                    t,
                    if a == b { "duplicate-key" } else { "not-increasing" },
                    &key_label(t, &b),
                    format!("{}[{}] key {:?} is not greater than the preceding key {:?}", t, i, b, a),
                ));
            }
        }
    }

    // S3: every integer decodes to a canonical well-formed subtag
    for t in LIKELY_TABLES {
        let c = as_array(comp.get(t)).unwrap_or(&[]);
        let mut n = 0;
        for (i, row) in c.iter().enumerate() {
            let Val::Tuple(cols) = row else { continue };
            let keys = row_key(row);
            let mut problems: Vec<String> = vec![];
            for (j, k) in keys.iter().enumerate() {
                ints_decoded += 1;
                let r = match (t, j) {
                    ("LANG_ONLY", 0) | ("LANG_REGION", 0) | ("LANG_SCRIPT", 0) => decode_lang(*k),
                    ("LANG_REGION", 1) | ("SCRIPT_REGION", 1) | ("REGION_ONLY", 0) => decode_region(*k),
                    _ => decode_script(*k),
                };
                if let Err(e) = r {
                    problems.push(format!("key column {}: {}", j, e));
                }
            }
            if let Some(Val::Tuple(v)) = cols.last() {
                for (j, x) in v.iter().enumerate() {
                    if let Val::Some(b) = x {
                        if let Val::Int(iv) = **b {
                            ints_decoded += 1;
                            let r = match j {
                                0 => decode_lang(iv),
                                1 => decode_script(iv),
                                _ => decode_region(iv),
                            };
                            if let Err(e) = r {
                                problems.push(format!("value column {}: {}", j, e));
                            }
                        }
                    }
                }
            }
            if !problems.is_empty() && n < cap {
                n += 1;
                out.push(viol(
                    "S3",
                    t,
                    "malformed-int",
                    &format!("row{}", i),
                    format!("{}[{}] = {}: {}", t, i, row, problems.join("; ")),
                ));
            }
        }
    }
    for t in LAYOUT_ITEMS {
        let c = as_array(comp.get(t)).unwrap_or(&[]);
        for x in c {
            if let Val::Int(iv) = x {
                ints_decoded += 1;
                let r = if t.starts_with("LANGS") {
                    decode_lang(*iv)
                } else {
                    decode_script(*iv)
                };
                if let Err(e) = r {
                    out.push(viol("S3", t, "malformed-int", &iv.to_string(), format!("{}: {}", t, e)));
                }
            }
        }
    }

    // S4: every row is found by the real lookup (the order the binary search actually uses).
    // Gating only when reachability differs between rows of one table (position dependent =
    // ordering); a table with no reachable row at all is reported but not attributed to C18.
    // (round 5) "Found" must not depend on what was looked up before: the rows are asked for in
    // table order, in reverse order, and each right after a lookup that misses next to it (same
    // first key, a second key the table does not list for it) — a lookup that remembers its last
    // miss or narrows its bounds from the previous call finds every row when asked cold and loses
    // some of them in use (seeded `m22`).
    type Triple = (subtags::Language, Option<subtags::Script>, Option<subtags::Region>);
    struct Probe {
        idx: usize,
        key: Vec<u128>,
        ask: Triple,
        expect: (String, Option<String>, Option<String>),
    }
    let lang = |v: u128| decode_lang(v).ok().and_then(|s| subtags::Language::from_bytes(s.as_bytes()).ok());
    let script = |v: u128| decode_script(v).ok().and_then(|s| subtags::Script::from_bytes(s.as_bytes()).ok());
    let region = |v: u128| decode_region(v).ok().and_then(|s| subtags::Region::from_bytes(s.as_bytes()).ok());
    let und = subtags::Language::default();
    let triple_of = |t: &str, k: &[u128]| -> Option<Triple> {
        Some(match t {
            "LANG_ONLY" => (lang(*k.first()?)?, None, None),
            "LANG_REGION" => (lang(*k.first()?)?, None, Some(region(*k.get(1)?)?)),
            "LANG_SCRIPT" => (lang(*k.first()?)?, Some(script(*k.get(1)?)?), None),
            "SCRIPT_REGION" => (und, Some(script(*k.first()?)?), Some(region(*k.get(1)?)?)),
            "SCRIPT_ONLY" => (und, Some(script(*k.first()?)?), None),
            _ => (und, None, Some(region(*k.first()?)?)),
        })
    };
    let answer = |q: Triple| -> Option<(String, Option<String>, Option<String>)> {
        match std::panic::catch_unwind(|| ls::maximize(q.0, q.1, q.2)) {
            Ok(Some((gl, gs, gr))) => Some((
                gl.as_str().to_string(),
                gs.map(|x| x.as_str().to_string()),
                gr.map(|x| x.as_str().to_string()),
            )),
            _ => None,
        }
    };
    // a few scripts and regions the tables know (first, middle, last of each universe): the
    // components added to a row's key to make a lookup that goes to a neighbouring table
    let pick3 = |mut v: Vec<u128>| -> Vec<u128> {
        v.sort();
        v.dedup();
        if v.len() <= 3 {
            v
        } else {
            vec![v[0], v[v.len() / 2], v[v.len() - 1]]
        }
    };
    let universe = |tables: &[(&str, usize)]| -> Vec<u128> {
        let mut v = vec![];
        for (t, col) in tables {
            for row in as_array(comp.get(*t)).unwrap_or(&[]) {
                if let Some(k) = row_key(row).get(*col) {
                    v.push(*k);
                }
            }
        }
        v
    };
    let all_scripts: Vec<subtags::Script> = pick3(universe(&[("LANG_SCRIPT", 1), ("SCRIPT_ONLY", 0)])).into_iter().filter_map(script).collect();
    let all_regions: Vec<subtags::Region> = pick3(universe(&[("LANG_REGION", 1), ("REGION_ONLY", 0)])).into_iter().filter_map(region).collect();
    let mut lookups = 0u64;
    let mut rows_tried = 0u64;
    let mut lookups_found = 0u64;
    let mut unreachable_tables = vec![];
    let mut all_probes: Vec<(&str, Vec<Probe>)> = vec![];
    for t in LIKELY_TABLES {
        let c = as_array(comp.get(t)).unwrap_or(&[]);
        let mut probes: Vec<Probe> = vec![];
        for (i, row) in c.iter().enumerate() {
            let k = row_key(row);
            if t == "LANG_ONLY" && k.first() == Some(&und_key()) {
                continue; // by design not reachable: the bare und key
            }
            let Some(ask) = triple_of(t, &k) else { continue };
            // rows whose value lacks a language (the lookup would unwrap a None) or does not decode
            // are skipped here: S1/S3 report those
            // the stored value, decoded by the harness's own unpacker
            let expect: Option<(String, Option<String>, Option<String>)> = (|| {
                let Val::Tuple(cols) = row else { return None };
                let Some(Val::Tuple(v)) = cols.last() else { return None };
                let int = |x: &Val| -> Option<Option<u128>> {
                    match x {
                        Val::None => Some(None),
                        Val::Some(b) => match **b {
                            Val::Int(i) => Some(Some(i)),
                            _ => None,
                        },
                        _ => None,
                    }
                };
                let l = decode_lang(int(v.first()?)??).ok()?;
                let s = match int(v.get(1)?)? {
                    Some(i) => Some(decode_script(i).ok()?),
                    None => None,
                };
                let r = match int(v.get(2)?)? {
                    Some(i) => Some(decode_region(i).ok()?),
                    None => None,
                };
                Some((l, s, r))
            })();
            let Some(expect) = expect else { continue };
            probes.push(Probe { idx: i, key: k, ask, expect });
        }
        all_probes.push((t, probes));
    }

    // pass 0 (round 9): **fresh processes.** Everything below runs in this one process, whose very
    // first lookup is always the same; a lookup that builds an index or a cache on first use
    // (OnceLock, Lazy, thread_local) may build it differently depending on which lookup comes first,
    // or on which thread. So before this process has looked anything up, a child is forked for each
    // of a number of first lookups (rows of every table, keys no table has, on the main thread and
    // on a thread of its own); in each child that lookup is made first and then every row is asked
    // for once. What the children miss is merged into the verdict below.
    let mut fresh_missed: BTreeMap<(usize, usize), String> = BTreeMap::new();
    let mut fresh_children = 0u64;
    {
        let mut primers: Vec<(String, Triple, bool)> = vec![];
        for (t, probes) in &all_probes {
            let n = probes.len();
            for (label, i) in [("first", 0usize), ("middle", n / 2), ("last", n.saturating_sub(1))] {
                if let Some(p) = probes.get(i) {
                    primers.push((format!("the {} row of {}", label, t), p.ask, false));
                }
            }
            if let Some(p) = probes.get(n / 3) {
                primers.push((format!("a row of {} looked up on another thread", t), p.ask, true));
            }
        }
        if let (Some(zzz), Some(s0), Some(r0)) = (subtags::Language::from_bytes(b"zzz").ok(), all_scripts.first(), all_regions.first()) {
            primers.push(("a language no table has".into(), (zzz, None, None), false));
            primers.push(("a language no table has, with a region".into(), (zzz, None, Some(*r0)), false));
            primers.push(("a language no table has, with a script".into(), (zzz, Some(*s0), None), false));
            primers.push(("the undetermined language alone".into(), (und, None, None), false));
            primers.push(("an identifier that is already complete".into(), (zzz, Some(*s0), Some(*r0)), false));
        }
        for (pi, (label, q, other_thread)) in primers.iter().enumerate() {
            let r = crate::isolate::fork_call(|| {
                if *other_thread {
                    let q = *q;
                    let _ = std::thread::spawn(move || {
                        let _ = std::panic::catch_unwind(|| ls::maximize(q.0, q.1, q.2));
                    })
                    .join();
                } else {
                    let _ = answer(*q);
                }
                let mut out: Vec<u8> = vec![];
                for (ti, (_t, probes)) in all_probes.iter().enumerate() {
                    for p in probes {
                        if answer(p.ask).as_ref() != Some(&p.expect) {
                            out.extend_from_slice(&(ti as u32).to_le_bytes());
                            out.extend_from_slice(&(p.idx as u32).to_le_bytes());
                        }
                    }
                }
                out.extend_from_slice(&u32::MAX.to_le_bytes()); // end marker: the child got this far
                out
            });
            let _ = pi;
            match r {
                Ok(bytes) if bytes.len() >= 4 && bytes[bytes.len() - 4..] == u32::MAX.to_le_bytes() => {
                    fresh_children += 1;
                    for c in bytes[..bytes.len() - 4].chunks_exact(8) {
                        let ti = u32::from_le_bytes(c[0..4].try_into().unwrap()) as usize;
                        let idx = u32::from_le_bytes(c[4..8].try_into().unwrap()) as usize;
                        fresh_missed
                            .entry((ti, idx))
                            .or_insert_with(|| format!("asked in a fresh process whose first lookup was {}", label));
                    }
                }
                // no child (fork unavailable): the pass is skipped, not failed
                _ => {}
            }
        }
        lookups += fresh_children * all_probes.iter().map(|(_, p)| p.len() as u64 + 1).sum::<u64>();
    }
    let fresh_note: Vec<String> = fresh_missed.values().cloned().collect();
    let _ = &fresh_note;

    for (ti, (t, probes)) in all_probes.iter().enumerate() {
        let t = *t;
        let tried = probes.len() as u64;
        // found = the lookup answers with exactly the value stored in this row (an answer taken
        // from a less specific table after a failed search does not count)
        // pass 1: table order, cold
        let mut missed: BTreeMap<usize, String> = BTreeMap::new();
        for ((fti, idx), how) in &fresh_missed {
            if *fti == ti {
                missed.insert(*idx, how.clone());
            }
        }
        for p in probes {
            lookups += 1;
            if answer(p.ask).as_ref() != Some(&p.expect) {
                missed.entry(p.idx).or_insert_with(|| "asked in table order".to_string());
            }
        }
        // pass 2: reverse order
        for p in probes.iter().rev() {
            lookups += 1;
            if answer(p.ask).as_ref() != Some(&p.expect) {
                missed.entry(p.idx).or_insert_with(|| "asked in reverse table order".to_string());
            }
        }
        // pass 3: each row right after a neighbouring miss
        let keyset: BTreeSet<Vec<u128>> = probes.iter().map(|p| p.key.clone()).collect();
        let two_keys = probes.first().map(|p| p.key.len() == 2).unwrap_or(false);
        let seconds: Vec<u128> = {
            let mut v: Vec<u128> = probes.iter().filter_map(|p| p.key.get(1).copied()).collect();
            v.sort();
            v.dedup();
            v
        };
        let firsts: Vec<u128> = {
            let mut v: Vec<u128> = probes.iter().filter_map(|p| p.key.first().copied()).collect();
            v.sort();
            v.dedup();
            v
        };
        for p in probes {
            let mut misses: Vec<Vec<u128>> = vec![];
            if two_keys {
                // same first key, a second key the table does not list for it: the largest and
                // the smallest second key of the table that qualify
                for cand in seconds.iter().rev().take(3).chain(seconds.iter().take(3)) {
                    let k = vec![p.key[0], *cand];
                    if !keyset.contains(&k) {
                        misses.push(k);
                    }
                }
            } else {
                // a first key of this table's kind that is not in the table is hard to make up
                // generically; a neighbour row's key asked for first serves as the "previous call"
                if let Ok(pos) = firsts.binary_search(&p.key[0]) {
                    for q in [pos.wrapping_sub(1), pos + 1] {
                        if let Some(f) = firsts.get(q) {
                            misses.push(vec![*f]);
                        }
                    }
                }
            }
            for m in misses {
                let Some(q) = triple_of(t, &m) else { continue };
                let _ = answer(q);
                lookups += 1;
                if answer(p.ask).as_ref() != Some(&p.expect) {
                    missed.entry(p.idx).or_insert_with(|| "asked right after a lookup next to it".to_string());
                }
            }
        }
        // pass 4 (round 7): each row right after a lookup that shares its first subtag but is
        // answered from a *different* table (one component added or dropped) — a lookup whose
        // memo or narrowed bounds are shared between tables (seeded `m30`: "language L has no rows
        // in LANG_REGION" believed for LANG_SCRIPT) finds every row after any lookup in its own
        // table and loses it after a probe of the neighbouring one
        for p in probes {
            let (l, sc, rg) = p.ask;
            // every combination of {the row's script, none, a few known scripts} with {the row's
            // region, none, a few known regions} other than the row's own key
            let mut scs: Vec<Option<subtags::Script>> = vec![sc, None];
            scs.extend(all_scripts.iter().map(|x| Some(*x)));
            let mut rgs: Vec<Option<subtags::Region>> = vec![rg, None];
            rgs.extend(all_regions.iter().map(|x| Some(*x)));
            let mut primers: Vec<Triple> = vec![];
            for s2 in &scs {
                for r2 in &rgs {
                    let q = (l, *s2, *r2);
                    if q != p.ask && !primers.contains(&q) {
                        primers.push(q);
                    }
                }
            }
            for q in primers {
                let _ = answer(q);
                lookups += 1;
                if answer(p.ask).as_ref() != Some(&p.expect) {
                    missed.entry(p.idx).or_insert_with(|| "asked right after a lookup that shares its first subtag and is answered from another table".to_string());
                }
            }
        }
        lookups_found += tried - missed.len() as u64;
        rows_tried += tried;
        if !missed.is_empty() {
            if missed.len() as u64 == tried {
                unreachable_tables.push(t.to_string());
            } else {
                for (i, how) in missed.iter().take(cap) {
                    let k = &probes.iter().find(|p| p.idx == *i).unwrap().key;
                    out.push(viol(
                        "S4",
                        t,
                        "row-not-found-by-lookup",
                        &key_label(t, k),
                        format!(
                            "{}[{}] (key {}) is not found by likelysubtags::maximize when {} (it does not answer with the value stored in that row) although {} of {} rows of the table are found however they are asked for: the table is not ordered the way the lookup searches it",
                            t,
                            i,
                            key_label(t, k),
                            how,
                            tried - missed.len() as u64,
                            tried
                        ),
                    ));
                }
            }
        }
    }

    // S6 (round 10): the direction query answers from the tables alone, whatever was asked before.
    // `character_direction` reads the four direction tables with `contains()` and, for a
    // script-less identifier of a right-to-left language, the likely-subtags tables; a memo keyed
    // too coarsely (seeded `m41`: per-thread cache keyed by the language only) makes the answer for
    // one CLDR key the answer computed earlier for another. Every identifier of the layout data
    // and of the likely-subtags keys that involve a listed right-to-left language is asked once
    // cold — on a thread of its own, the first query of that thread — and then in two sweeps on one
    // thread (ascending, descending); the three answers must agree.
    let mut direction_queries = 0u64;
    {
        use unic_langid_impl::LanguageIdentifier;
        let mut ids: BTreeSet<String> = rf.locales.keys().filter(|n| n.as_str() != "root").cloned().collect();
        let rtl_langs: BTreeSet<String> = as_array(comp.get("LANGS_CHARACTER_DIRECTION_RTL"))
            .unwrap_or(&[])
            .iter()
            .filter_map(|v| match v {
                Val::Int(i) => decode_lang(*i).ok(),
                _ => None,
            })
            .collect();
        for ((_t, _k), text) in &rf.key_text {
            let lang = text.split(|c| c == '-' || c == '_').next().unwrap_or("");
            if rtl_langs.contains(lang) {
                ids.insert(text.replace('_', "-"));
            }
        }
        let parsed: Vec<(String, LanguageIdentifier)> = ids.iter().filter_map(|n| n.parse::<LanguageIdentifier>().ok().map(|l| (n.clone(), l))).collect();
        let ask = |l: &LanguageIdentifier| -> String {
            let l = l.clone();
            match std::panic::catch_unwind(move || format!("{:?}", l.character_direction())) {
                Ok(s) => s,
                Err(_) => "<panic>".to_string(),
            }
        };
        let cold: Vec<String> = parsed
            .iter()
            .map(|(_, l)| {
                let l = l.clone();
                std::thread::spawn(move || match std::panic::catch_unwind(move || format!("{:?}", l.character_direction())) {
                    Ok(s) => s,
                    Err(_) => "<panic>".to_string(),
                })
                .join()
                .unwrap_or_else(|_| "<panic>".to_string())
            })
            .collect();
        let up: Vec<String> = parsed.iter().map(|(_, l)| ask(l)).collect();
        let down: Vec<String> = {
            let mut v: Vec<String> = parsed.iter().rev().map(|(_, l)| ask(l)).collect();
            v.reverse();
            v
        };
        direction_queries = 3 * parsed.len() as u64;
        let mut shown = 0;
        for (i, (name, _)) in parsed.iter().enumerate() {
            if (cold[i] != up[i] || cold[i] != down[i]) && shown < cap {
                shown += 1;
                out.push(viol(
                    "S6",
                    "LANGS_CHARACTER_DIRECTION_RTL",
                    "direction-depends-on-earlier-queries",
                    name,
                    format!(
                        "character_direction() of {} is {} when it is the first query of a thread, {} after the identifiers before it and {} after the identifiers behind it were asked on the same thread: the answer is not determined by the bundled tables",
                        name, cold[i], up[i], down[i]
                    ),
                ));
            }
        }
    }

    StaticReport {
        violations: out,
        direction_queries,
        rows_checked,
        ints_decoded,
        lookups: rows_tried,
        lookup_queries: lookups,
        fresh_process_children: fresh_children,
        lookups_found,
        unreachable_tables,
    }
}

/// R2: the text a generator printed must be the compiled tables.
/// `which` = "layout" or "likely".
pub fn check_output(which: &str, text: &str, comp: &BTreeMap<String, Val>) -> Vec<Violation> {
    let mut out = vec![];
    let expected_names: &[&str] = if which == "layout" { &LAYOUT_ITEMS } else { &LIKELY_ITEMS };
    // The fast path applies when the output spells the tables as plain items under their own
    // names. Anything else that may still be perfectly good Rust — a macro DSL, const-fn
    // constructors, but also the tables stored under other names or in another shape (parallel
    // key/value arrays, chunked statics) with the ten logical tables derived at compile time
    // (control `j6_r2`) — is judged by what it denotes once compiled in place of the checked-in file.
    let parsed = parse_items(text).and_then(|items| {
        match expected_names.iter().find(|n| !items.iter().any(|it| it.name == **n)) {
            Some(missing) if !items.is_empty() => Err(format!("no plain item named {}", missing)),
            _ => Ok(items),
        }
    });
    let items: Vec<Item> = match parsed {
        Ok(i) => i,
        Err(e) => {
            // Not the plain item syntax: the output may still be perfectly good Rust (macro DSL,
            // const-fn constructors, helper items). Ask the compiler what it denotes (ce.rs).
            if text.trim().is_empty() {
                out.push(viol("R2", "-", "no-output", "", "generator produced no output".to_string()));
                return out;
            }
            match crate::ce::evaluate(which, text) {
                crate::ce::Outcome::Tables(m) => m
                    .into_iter()
                    .map(|(name, value)| Item {
                        name,
                        kind: "static".into(),
                        ty: String::new(),
                        declared_len: None,
                        declared_len_name: None,
                        value,
                    })
                    .filter(|it| {
                        // the dump prints all ten tables; only this generator's are its output
                        let mine: &[&str] = if which == "layout" { &LAYOUT_ITEMS } else { &LIKELY_ITEMS };
                        mine.contains(&it.name.as_str())
                    })
                    .collect(),
                crate::ce::Outcome::DoesNotCompile(msg) => {
                    out.push(viol(
                        "R2",
                        "-",
                        "output-does-not-compile",
                        "",
                        format!(
                            "generator output is neither a plain sequence of table items ({}) nor does it compile in place of the checked-in file: {}",
                            e, msg
                        ),
                    ));
                    return out;
                }
                crate::ce::Outcome::Unavailable(msg) => {
                    crate::ce::note_unjudged(&format!("{} (item reader said: {})", msg, e));
                    return out;
                }
            }
        }
    };
    let expected: &[&str] = if which == "layout" { &LAYOUT_ITEMS } else { &LIKELY_ITEMS };
    let mut seen: BTreeSet<&str> = BTreeSet::new();
    // helper items next to the tables (named lengths and the like) are not table content: C18
    // speaks about the ten tables. They are kept only to resolve a length written by name.
    let helpers: BTreeMap<&str, &Val> = items
        .iter()
        .filter(|it| !expected.contains(&it.name.as_str()))
        .map(|it| (it.name.as_str(), &it.value))
        .collect();
    for it in &items {
        if !expected.contains(&it.name.as_str()) {
            continue;
        }
        if !seen.insert(it.name.as_str()) {
            out.push(viol(
                "R2",
                &it.name,
                "duplicate-item",
                "",
                format!("generator printed {} twice", it.name),
            ));
            continue;
        }
        let declared = it.declared_len.or_else(|| match it.declared_len_name.as_deref().and_then(|n| helpers.get(n)) {
            Some(Val::Int(n)) => Some(*n as u64),
            _ => None,
        });
        if let (Some(n), Val::Array(a)) = (declared, &it.value) {
            if n as usize != a.len() {
                out.push(viol(
                    "R2",
                    &it.name,
                    "declared-length",
                    "",
                    format!(
                        "generator printed {} with declared length {} but {} elements (would not compile)",
                        it.name,
                        n,
                        a.len()
                    ),
                ));
            }
        }
        let c = comp.get(&it.name);
        match (&it.value, c) {
            (Val::Array(g), Some(Val::Array(cv))) => {
                if which == "layout" {
                    compare_set("R2", &it.name, "generator output", g, "compiled table", cv, &mut out);
                } else {
                    compare_seq("R2", &it.name, "generator output", g, "compiled table", cv, &mut out, 3);
                }
            }
            (g, Some(cv)) => {
                if g != cv {
                    out.push(viol(
                        "R2",
                        &it.name,
                        "value",
                        "",
                        format!("generator printed {} = {} but the compiled value is {}", it.name, g, cv),
                    ));
                }
            }
            (_, None) => {}
        }
    }
    for e in expected {
        if !seen.contains(e) {
            out.push(viol(
                "R2",
                e,
                "missing-item",
                "",
                format!("generator did not print {}", e),
            ));
        }
    }
    out
}

/// T1 (harness self-check, not a property clause): the checked-in source text parses to the
/// compiled statics. A mismatch means the hook does not show what the files say.
/// T1: the checked-in table source, read by the same tolerant reader, equals the statics seen
/// through the hook. Returns the files that could not be read as plain items (tables written
/// through macros, const fns, ...): for those the hook is the only view and T1 is skipped.
pub fn source_text_agrees(repo_crate: &std::path::Path, comp: &BTreeMap<String, Val>) -> Result<Vec<String>, String> {
    let mut skipped = vec![];
    for (file, names) in [
        ("src/likelysubtags/tables.rs", &LIKELY_ITEMS[..]),
        ("src/layout_table.rs", &LAYOUT_ITEMS[..]),
    ] {
        let p = repo_crate.join(file);
        let text = std::fs::read_to_string(&p).map_err(|e| format!("{}: {}", p.display(), e))?;
        let items = match parse_items(&text) {
            Ok(i) => i,
            Err(e) => {
                skipped.push(format!("{}: not plain items ({})", file, e));
                continue;
            }
        };
        for n in names {
            let Some(it) = items.iter().find(|i| i.name == *n) else {
                skipped.push(format!("{}: item {} is not written as a plain item", file, n));
                continue;
            };
            if Some(&it.value) != comp.get(*n) {
                return Err(format!(
                    "{}: item {} as written differs from the compiled static read through the hook",
                    p.display(),
                    n
                ));
            }
        }
    }
    Ok(skipped)
}
