//! (round 15) The repository's *library* compiled a third time, for the generators' own calls into
//! it — only when the library itself meets the environment (build.rs: a text scan for file,
//! stream, hash-container, thread, clock or process use outside `src/bin`). The same source files,
//! behind the full shadow `std` the generator programs see: a locale walk, a swallowed `open`
//! error or a `HashMap` that a change moved from a generator into a library module stays behind
//! the seams (seeded `m63`). The pinned library has none of these and the generators call the real
//! crate, as always.

#[allow(dead_code, unused_imports, unused_macros, clippy::all, unexpected_cfgs)]
pub mod root {
    mod std {
        pub use crate::seams::shadow_std::*;
        pub use crate::seams::shadow_std::env;
    }
    mod walkdir {
        pub use crate::seams::shim_walkdir::*;
    }
    mod rayon {
        pub use crate::seams::shim_rayon::*;
    }
    use crate::seams::{LocalKeyCellExt as _, LocalKeyRefCellExt as _};
    macro_rules! println {
        () => { crate::seams::emit(format_args!(""), true) };
        ($($t:tt)*) => { crate::seams::emit(format_args!($($t)*), true) };
    }
    macro_rules! print {
        ($($t:tt)*) => { crate::seams::emit(format_args!($($t)*), false) };
    }
    macro_rules! eprintln {
        () => { crate::seams::emit_err(format_args!("")) };
        ($($t:tt)*) => { crate::seams::emit_err(format_args!($($t)*)) };
    }
    macro_rules! eprint {
        ($($t:tt)*) => { crate::seams::emit_err(format_args!($($t)*)) };
    }
    macro_rules! dbg {
        () => { crate::seams::emit_err(format_args!("")) };
        ($v:expr $(,)?) => { match $v { t => { crate::seams::emit_err(format_args!("{:?}", &t)); t } } };
        ($($v:expr),+ $(,)?) => { ($(dbg!($v)),+,) };
    }
    macro_rules! thread_local {
        ($($t:tt)*) => { shuttle::thread_local!{ $($t)* } };
    }
    include!(concat!(env!("OUT_DIR"), "/libgen/lib.rs"));
}
