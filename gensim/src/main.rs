//! gensim — deterministic simulation of unic-langid-impl's table-generation pipeline (property C18).
//!
//!   gensim check  --tier quick|thorough [--seed N] [--runs N] [--threads N]
//!                 [--evidence FILE] [--replay-dir DIR] [--known FILE]
//!   gensim replay FILE
//!   gensim trace  --seed N --from A --to B [--threads N] [--gen layout|likely]
//!   gensim show   --seed N --run I [--gen layout|likely]
//!
//! exit 0: property held on everything explored; 1: VIOLATION printed; 2: harness error.

#![recursion_limit = "512"]

// One definition of `env!` for the generator modules, reachable both ways a program can name it:
// textually (plain `env!(..)`, also inside `concat!`/`include_str!`) and by path (`use std::env;`
// imports the macro together with the module). Both routes end at this very macro, so the two
// are not ambiguous; it forwards to the built-in (build.rs points CARGO_MANIFEST_DIR at the
// repository crate for this compilation).
macro_rules! env {
    ($($t:tt)*) => { ::core::env!($($t)*) };
}
pub(crate) use env as __env_by_path;

mod ce;
#[cfg(feature = "likelysubtags")]
mod conc;
#[cfg(not(feature = "likelysubtags"))]
#[path = "conc_stub.rs"]
mod conc;
mod gens;
mod isolate;
#[cfg(feature = "likelysubtags")]
mod libsim;
#[cfg(all(gens_use_libgen, feature = "libgen"))]
mod libgen;
mod oracle;
mod rng;
mod rsparse;
#[cfg(test)]
mod rewrite_tests;
mod schedule;
mod seams;
mod sim;
mod world;

use oracle::Violation;
use rsparse::Val;
use serde_json::json;
use sim::{Gen, RunResult};
use std::collections::{BTreeMap, BTreeSet, HashMap, HashSet};
use std::path::{Path, PathBuf};
use std::sync::Arc;
use std::time::Instant;
use world::{Decision, FsImage, RunStats};

const PROPERTY: &str = "C18";
const REPO_CRATE: &str = "/repo/unic-langid-impl";
/// wall-clock limit of one real (unsimulated) generator process
const REAL_RUN_LIMIT_S: u64 = 60;

fn harness_error(msg: &str) -> ! {
    eprintln!("HARNESS-ERROR: {}", msg);
    std::process::exit(2);
}

struct Args {
    cmd: String,
    opts: HashMap<String, String>,
    pos: Vec<String>,
}

fn parse_args() -> Args {
    let mut a = std::env::args().skip(1);
    let cmd = a.next().unwrap_or_else(|| "check".into());
    let mut opts = HashMap::new();
    let mut pos = vec![];
    let rest: Vec<String> = a.collect();
    let mut i = 0;
    while i < rest.len() {
        if let Some(k) = rest[i].strip_prefix("--") {
            let v = rest.get(i + 1).cloned().unwrap_or_default();
            opts.insert(k.to_string(), v);
            i += 2;
        } else {
            pos.push(rest[i].clone());
            i += 1;
        }
    }
    Args { cmd, opts, pos }
}

fn opt_u64(a: &Args, k: &str, d: u64) -> u64 {
    match a.opts.get(k) {
        Some(v) => v
            .parse()
            .unwrap_or_else(|_| harness_error(&format!("--{} wants an integer, got {:?}", k, v))),
        None => d,
    }
}

struct Ctx {
    image: Arc<FsImage>,
    comp: BTreeMap<String, Val>,
    /// key id (fixed-key hash of the parsed LanguageIdentifier) -> locale name
    id2loc: HashMap<u64, String>,
    /// index pairs (into `locs`) of locales carrying the same explicit script
    pairs: Vec<(u32, u32)>,
    locs: Vec<String>,
    loc_ids: Vec<u64>,
    gen_src_digest: u64,
}

fn source_digest() -> u64 {
    let mut d = rng::Fnv::default();
    for g in [Gen::Layout, Gen::Likely] {
        let p = Path::new("/repo").join(g.program());
        match std::fs::read(&p) {
            Ok(b) => d.bytes(&b),
            Err(e) => harness_error(&format!("{}: {}", p.display(), e)),
        }
    }
    d.0
}

fn build_ctx(rf: &oracle::Reference, image: Arc<FsImage>, comp: BTreeMap<String, Val>) -> Ctx {
    let mut id2loc = HashMap::new();
    let mut locs = vec![];
    let mut loc_ids = vec![];
    let mut by_script: BTreeMap<String, Vec<u32>> = BTreeMap::new();
    for (name, (lid, _dir)) in &rf.locales {
        // coverage bookkeeping only: identify the generator's map keys
        if let Ok(li) = name.parse::<unic_langid_impl::LanguageIdentifier>() {
            let id = seams::coll::key_id(&li);
            id2loc.insert(id, name.clone());
            let idx = locs.len() as u32;
            locs.push(name.clone());
            loc_ids.push(id);
            if let Some(s) = &lid.script {
                by_script.entry(s.clone()).or_default().push(idx);
            }
        }
    }
    let mut pairs = vec![];
    for v in by_script.values() {
        for i in 0..v.len() {
            for j in i + 1..v.len() {
                pairs.push((v[i], v[j]));
            }
        }
    }
    Ctx {
        image,
        comp,
        id2loc,
        pairs,
        locs,
        loc_ids,
        gen_src_digest: source_digest(),
    }
}

#[derive(Default)]
struct Cover {
    runs: u64,
    panics: u64,
    stats: RunStats,
    events: u64,
    by_dir_kind: BTreeMap<&'static str, u64>,
    by_hash_kind: BTreeMap<&'static str, u64>,
    distinct_logs: HashSet<u64>,
    distinct_dir_orders: HashSet<u64>,
    distinct_iter_orders: HashSet<u64>,
    distinct_outputs: HashSet<u64>,
    distinct_interleavings: HashSet<u64>,
    /// runs of the batch that the wall-clock budget did not allow
    requested_not_run: u64,
    dir_first: HashSet<String>,
    dir_last: HashSet<String>,
    map_first: HashSet<u64>,
    map_last: HashSet<u64>,
    pair_ab: Vec<bool>,
    pair_ba: Vec<bool>,
    nondefault_runs: u64,
    diverged: u64,
    sample_digests: BTreeMap<u64, u64>,
    failing: Vec<(u64, Vec<Violation>)>,
    failing_total: u64,
    /// digests of ordered adjacent pairs seen (covering batch only)
    adj_dir: HashSet<u64>,
    adj_map: HashSet<u64>,
}

impl Cover {
    fn merge(&mut self, o: Cover) {
        self.runs += o.runs;
        self.panics += o.panics;
        self.stats.add(&o.stats);
        self.events += o.events;
        for (k, v) in o.by_dir_kind {
            *self.by_dir_kind.entry(k).or_default() += v;
        }
        for (k, v) in o.by_hash_kind {
            *self.by_hash_kind.entry(k).or_default() += v;
        }
        self.distinct_logs.extend(o.distinct_logs);
        self.distinct_dir_orders.extend(o.distinct_dir_orders);
        self.distinct_iter_orders.extend(o.distinct_iter_orders);
        self.distinct_outputs.extend(o.distinct_outputs);
        self.distinct_interleavings.extend(o.distinct_interleavings);
        self.requested_not_run += o.requested_not_run;
        self.dir_first.extend(o.dir_first);
        self.dir_last.extend(o.dir_last);
        self.map_first.extend(o.map_first);
        self.map_last.extend(o.map_last);
        if self.pair_ab.len() < o.pair_ab.len() {
            self.pair_ab.resize(o.pair_ab.len(), false);
            self.pair_ba.resize(o.pair_ba.len(), false);
        }
        for (i, b) in o.pair_ab.iter().enumerate() {
            self.pair_ab[i] |= *b;
        }
        for (i, b) in o.pair_ba.iter().enumerate() {
            self.pair_ba[i] |= *b;
        }
        self.nondefault_runs += o.nondefault_runs;
        self.diverged += o.diverged;
        self.sample_digests.extend(o.sample_digests);
        self.failing.extend(o.failing);
        self.failing_total += o.failing_total;
        self.adj_dir.extend(o.adj_dir);
        self.adj_map.extend(o.adj_map);
    }
}

fn absorb(ctx: &Ctx, cov: &mut Cover, run: u64, r: &RunResult, v: Vec<Violation>, sample_stride: u64) {
    cov.runs += 1;
    cov.stats.add(&r.stats);
    cov.events += r.events;
    if r.panic.is_some() {
        cov.panics += 1;
    }
    if let Some(p) = &r.profile {
        *cov.by_dir_kind.entry(p.dir_kind()).or_default() += 1;
        let hk = match p.hash {
            world::HashMode::Fresh => "fresh",
            world::HashMode::Shared(..) => "shared",
            world::HashMode::Zero => "zero",
        };
        *cov.by_hash_kind.entry(hk).or_default() += 1;
    }
    cov.distinct_logs.insert(r.log_digest);
    let mut od = rng::Fnv::default();
    od.bytes(r.out.as_bytes());
    cov.distinct_outputs.insert(od.0);
    if r.under_shuttle && r.stats.sched_choice_points > 0 {
        cov.distinct_interleavings.insert(r.sched_digest);
    }
    if r.trace.iter().any(|d| !d.is_default()) {
        cov.nondefault_runs += 1;
    }
    if r.diverged {
        cov.diverged += 1;
    }
    for (_p, names) in &r.dir_orders {
        let mut d = rng::Fnv::default();
        for n in names {
            d.str(n);
        }
        cov.distinct_dir_orders.insert(d.0);
        if let Some(f) = names.first() {
            if !cov.dir_first.contains(f) {
                cov.dir_first.insert(f.clone());
            }
        }
        if let Some(l) = names.last() {
            if !cov.dir_last.contains(l) {
                cov.dir_last.insert(l.clone());
            }
        }
    }
    // the generator's locale map is the first 'M' container
    if let Some(rec) = r.iter_orders.iter().find(|x| x.kind == 'M') {
        let mut d = rng::Fnv::default();
        for i in &rec.ids {
            d.u64(*i);
        }
        cov.distinct_iter_orders.insert(d.0);
        if let Some(f) = rec.ids.first() {
            cov.map_first.insert(*f);
        }
        if let Some(l) = rec.ids.last() {
            cov.map_last.insert(*l);
        }
        if !ctx.pairs.is_empty() {
            if cov.pair_ab.is_empty() {
                cov.pair_ab = vec![false; ctx.pairs.len()];
                cov.pair_ba = vec![false; ctx.pairs.len()];
            }
            let pos: HashMap<u64, usize> = rec.ids.iter().enumerate().map(|(i, id)| (*id, i)).collect();
            for (pi, (a, b)) in ctx.pairs.iter().enumerate() {
                if let (Some(pa), Some(pb)) = (pos.get(&ctx.loc_ids[*a as usize]), pos.get(&ctx.loc_ids[*b as usize])) {
                    if pa < pb {
                        cov.pair_ab[pi] = true;
                    } else {
                        cov.pair_ba[pi] = true;
                    }
                }
            }
        }
    }
    if sample_stride > 0 && run % sample_stride == 0 {
        cov.sample_digests.insert(run, r.log_digest);
    }
    if !v.is_empty() {
        cov.failing_total += 1;
        if cov.failing.len() < 32 {
            cov.failing.push((run, v));
        }
    }
}

#[derive(Clone, Copy, PartialEq, Eq, Debug)]
enum Batch {
    /// seeded search: run i draws its profile and every decision from splitmix(seed, generator, i)
    Random,
    /// deterministic adjacency-covering family: run j is member j (seed-independent)
    Cover,
    /// (round 12) the same family on a one-core machine: only run for a program that asks how many
    /// cores there are (seeded `m49`: the first listed entry is lost on a single core)
    CoverOneCore,
}

fn make_mode(batch: Batch, seed: u64, gen: Gen, i: u64) -> world::Mode {
    match batch {
        Batch::Random => sim::random_mode(seed, gen, i),
        Batch::Cover => world::Mode::Random {
            rng: rng::Rng::new(0),
            aux: rng::Rng::new(1),
            profile: world::Profile::cover(i as u32),
        },
        Batch::CoverOneCore => world::Mode::Random {
            rng: rng::Rng::new(0),
            aux: rng::Rng::new(1),
            profile: world::Profile {
                cover_cores: 1,
                ..world::Profile::cover(i as u32)
            },
        },
    }
}

fn run_batch(ctx: &Arc<Ctx>, gen: Gen, seed: u64, runs: u64, threads: u64, sample_stride: u64, budget: std::time::Duration) -> Cover {
    run_batch_of(ctx, Batch::Random, gen, seed, runs, threads, sample_stride, budget)
}

/// `budget`: wall-clock allowance of the batch. A program that became expensive to run (threads,
/// an external formatter, output that needs compiling) gets fewer runs, not an endless check; the
/// evidence reports how many of the requested runs were executed.
fn run_batch_of(ctx: &Arc<Ctx>, batch: Batch, gen: Gen, seed: u64, runs: u64, threads: u64, sample_stride: u64, budget: std::time::Duration) -> Cover {
    let mut handles = vec![];
    let started = Instant::now();
    for t in 0..threads {
        let ctx = ctx.clone();
        handles.push(
            std::thread::Builder::new()
                .stack_size(64 << 20)
                .spawn(move || {
                    let mut cov = Cover::default();
                    let mut good: Vec<String> = vec![];
                    let mut i = t;
                    while i < runs {
                        if started.elapsed() > budget {
                            cov.requested_not_run += (runs - i + threads - 1) / threads;
                            break;
                        }
                        sim::set_label(Some(sim::RunLabel {
                            gen,
                            batch: match batch {
                                Batch::Cover => "cover",
                                Batch::CoverOneCore => "cover1",
                                Batch::Random => "random",
                            },
                            seed,
                            run: i,
                        }));
                        let r = sim::execute(gen, &ctx.image, make_mode(batch, seed, gen, i), true, false);
                        sim::set_label(None);
                        let v = sim::judge(&r, &ctx.comp, &mut good);
                        if batch != Batch::Random {
                            // measure what the family is for: ordered adjacencies actually produced
                            for (_p, names) in &r.dir_orders {
                                for w in names.windows(2) {
                                    let mut d = rng::Fnv::default();
                                    d.str(&w[0]);
                                    d.str(&w[1]);
                                    cov.adj_dir.insert(d.0);
                                }
                            }
                            if let Some(rec) = r.iter_orders.iter().find(|x| x.kind == 'M') {
                                for w in rec.ids.windows(2) {
                                    let mut d = rng::Fnv::default();
                                    d.u64(w[0]);
                                    d.u64(w[1]);
                                    cov.adj_map.insert(d.0);
                                }
                            }
                        }
                        absorb(&ctx, &mut cov, i, &r, v, sample_stride);
                        i += threads;
                    }
                    cov
                })
                .unwrap(),
        );
    }
    let mut total = Cover::default();
    for h in handles {
        match h.join() {
            Ok(c) => total.merge(c),
            Err(_) => harness_error("a simulation worker thread panicked outside a simulated run"),
        }
    }
    total
}

/// Non-gating exploration of hard I/O faults (DESIGN §4.4): what do the generators do when a read
/// fails, a file is torn or corrupt, or the listing errors out? Outcomes are counted, never judged.
fn run_fault_batch(ctx: &Arc<Ctx>, gen: Gen, seed: u64, runs: u64, threads: u64, budget: std::time::Duration) -> BTreeMap<(&'static str, &'static str), u64> {
    let started = Instant::now();
    let n_reads: u64 = match gen {
        Gen::Layout => names_of(&ctx.image, "data/cldr-misc-full/main").len() as u64,
        Gen::Likely => 1,
    };
    let mut handles = vec![];
    for t in 0..threads {
        let ctx = ctx.clone();
        handles.push(
            std::thread::Builder::new()
                .stack_size(64 << 20)
                .spawn(move || {
                    let mut m: BTreeMap<(&'static str, &'static str), u64> = BTreeMap::new();
                    let mut good: Vec<String> = vec![];
                    let mut i = t;
                    while i < runs {
                        if started.elapsed() > budget {
                            *m.entry(("-", "not_run_wall_clock_budget")).or_default() += (runs - i + threads - 1) / threads;
                            break;
                        }
                        let mut r = rng::Rng::new(rng::run_seed(seed, gen.stream() + 16, i));
                        let kind = world::HardKind::ALL[r.below(world::HardKind::ALL.len() as u64) as usize];
                        let plan = world::HardPlan {
                            kind,
                            at: r.below(n_reads.max(1)),
                            salt: r.next_u64(),
                        };
                        let res = sim::execute_with(gen, &ctx.image, sim::random_mode(seed, gen, i), false, false, Some(plan));
                        let outcome = if !res.hard_fired {
                            "fault_not_reached"
                        } else if res.panic.is_some() {
                            if res.out.is_empty() {
                                "fail_stop_nothing_printed"
                            } else {
                                "failed_after_partial_output"
                            }
                        } else if sim::judge(&res, &ctx.comp, &mut good).is_empty() {
                            "completed_output_equals_tables"
                        } else {
                            "completed_output_differs"
                        };
                        *m.entry((kind.name(), outcome)).or_default() += 1;
                        i += threads;
                    }
                    m
                })
                .unwrap(),
        );
    }
    let mut total: BTreeMap<(&'static str, &'static str), u64> = BTreeMap::new();
    for h in handles {
        for (k, v) in h.join().unwrap_or_else(|_| harness_error("fault-exploration worker panicked")) {
            *total.entry(k).or_default() += v;
        }
    }
    total
}

fn fault_json(m: &BTreeMap<(&'static str, &'static str), u64>) -> serde_json::Value {
    let mut o = serde_json::Map::new();
    for ((kind, outcome), n) in m {
        let e = o.entry(kind.to_string()).or_insert_with(|| json!({}));
        e[*outcome] = json!(n);
    }
    serde_json::Value::Object(o)
}

#[derive(Default)]
struct SessCover {
    sessions: u64,
    runs: u64,
    earlier_runs_completed: u64,
    crashes: BTreeMap<&'static str, u64>,
    torn_writes: u64,
    final_failures_not_judged: u64,
    finals_on_leftovers: u64,
    distinct_leftovers: HashSet<u64>,
    distinct_sessions: HashSet<u64>,
    fs_mutations: u64,
    metadata_queries: u64,
    crash_points: u64,
    clock_stepped_back: u64,
    company_planned: u64,
    company_started: u64,
    company_failed: u64,
    company_killed: u64,
    failing: Vec<(u64, Vec<Violation>)>,
    failing_total: u64,
    requested_not_run: u64,
    sample_digests: BTreeMap<u64, u64>,
    stats: RunStats,
}

impl SessCover {
    fn merge(&mut self, o: SessCover) {
        self.sessions += o.sessions;
        self.runs += o.runs;
        self.earlier_runs_completed += o.earlier_runs_completed;
        for (k, v) in o.crashes {
            *self.crashes.entry(k).or_default() += v;
        }
        self.torn_writes += o.torn_writes;
        self.final_failures_not_judged += o.final_failures_not_judged;
        self.finals_on_leftovers += o.finals_on_leftovers;
        self.distinct_leftovers.extend(o.distinct_leftovers);
        self.distinct_sessions.extend(o.distinct_sessions);
        self.fs_mutations += o.fs_mutations;
        self.metadata_queries += o.metadata_queries;
        self.crash_points += o.crash_points;
        self.clock_stepped_back += o.clock_stepped_back;
        self.company_planned += o.company_planned;
        self.company_started += o.company_started;
        self.company_failed += o.company_failed;
        self.company_killed += o.company_killed;
        self.failing.extend(o.failing);
        self.failing_total += o.failing_total;
        self.requested_not_run += o.requested_not_run;
        self.sample_digests.extend(o.sample_digests);
        self.stats.add(&o.stats);
    }
}

/// Crash-restart histories (DESIGN §4.11): session i = a few earlier runs on one simulated machine,
/// most of them cut short at a seeded crash point (process kill or power loss), then one run that
/// is judged. Whatever the earlier runs left on the simulated disk is what the judged run starts on.
fn run_session_batch(ctx: &Arc<Ctx>, gen: Gen, seed: u64, sessions: u64, threads: u64, m0: u64, budget: std::time::Duration) -> SessCover {
    let started = Instant::now();
    let mut handles = vec![];
    for t in 0..threads {
        let ctx = ctx.clone();
        handles.push(
            std::thread::Builder::new()
                .stack_size(64 << 20)
                .spawn(move || {
                    let mut cov = SessCover::default();
                    let mut good: Vec<String> = vec![];
                    let mut i = t;
                    while i < sessions {
                        if started.elapsed() > budget {
                            cov.requested_not_run += (sessions - i + threads - 1) / threads;
                            break;
                        }
                        sim::set_label(Some(sim::RunLabel {
                            gen,
                            batch: "session",
                            seed,
                            run: i,
                        }));
                        let (steps, mtime_seed) = sim::session_steps(seed, gen, &ctx.image, i, m0);
                        let res = sim::execute_session(gen, &ctx.image, &steps, mtime_seed, false);
                        sim::set_label(None);
                        let drifted: Vec<bool> = steps.iter().map(|st| !st.drift.is_empty()).collect();
                        let v = sim::judge_session_with(&res, &drifted, &ctx.comp, &mut good);
                        cov.sessions += 1;
                        cov.runs += res.runs.len() as u64;
                        for (st, r) in steps.iter().zip(res.runs.iter()) {
                            cov.stats.add(&r.stats);
                            cov.fs_mutations += r.fs_mutations;
                            cov.metadata_queries += r.metadata_queries;
                            cov.crash_points += r.crash_points;
                            if st.gap_ns < 0 {
                                cov.clock_stepped_back += 1;
                            }
                            if st.crash.is_some() {
                                match r.crashed {
                                    Some(k) => *cov.crashes.entry(k.name()).or_default() += 1,
                                    None => cov.earlier_runs_completed += 1,
                                }
                            }
                            if r.torn_write {
                                cov.torn_writes += 1;
                            }
                            if st.intruder.is_some() {
                                cov.company_planned += 1;
                            }
                            if let Some(r2) = &r.intruder {
                                cov.company_started += 1;
                                cov.runs += 1;
                                if r2.panic.is_some() {
                                    cov.company_failed += 1;
                                }
                                if r2.crashed.is_some() {
                                    cov.company_killed += 1;
                                }
                            }
                        }
                        let before_last = &res.runs[res.runs.len() - 2].disk_after;
                        if !before_last.files.is_empty() || !before_last.removed.is_empty() {
                            cov.finals_on_leftovers += 1;
                            cov.distinct_leftovers.insert(before_last.digest());
                        }
                        if res.last().panic.is_some() {
                            cov.final_failures_not_judged += 1;
                        }
                        let dg = res.digest();
                        cov.distinct_sessions.insert(dg);
                        if i % 8 == 0 && cov.sample_digests.len() < 64 {
                            cov.sample_digests.insert(i, dg);
                        }
                        if !v.is_empty() {
                            cov.failing_total += 1;
                            if cov.failing.len() < 16 {
                                cov.failing.push((i, v));
                            }
                        }
                        i += threads;
                    }
                    cov
                })
                .unwrap(),
        );
    }
    let mut total = SessCover::default();
    for h in handles {
        match h.join() {
            Ok(c) => total.merge(c),
            Err(_) => harness_error("a session worker thread panicked outside a simulated run"),
        }
    }
    total
}

fn crash_json(c: &Option<world::CrashPlan>) -> serde_json::Value {
    match c {
        Some(c) => json!({ "at_crash_point": c.at, "kind": c.kind.name(), "salt": c.salt }),
        None => json!(null),
    }
}

fn crash_from_json(v: &serde_json::Value) -> Option<world::CrashPlan> {
    if v.is_null() {
        return None;
    }
    Some(world::CrashPlan {
        at: v["at_crash_point"].as_u64()?,
        kind: if v["kind"].as_str() == Some("power_loss") { world::CrashKind::PowerLoss } else { world::CrashKind::Kill },
        salt: v["salt"].as_u64().unwrap_or(0),
    })
}

fn write_session_replay(
    dir: &Path,
    ctx: &Ctx,
    gen: Gen,
    seed: u64,
    session: u64,
    tier: &str,
    v: &Violation,
    steps: &[sim::ExplicitStep],
    mtime_seed: u64,
    extra: serde_json::Value,
) -> PathBuf {
    std::fs::create_dir_all(dir).ok();
    let mut sig = rng::Fnv::default();
    sig.str(&v.signature);
    let path = dir.join(format!("{}-session-{}-seed{}-s{}-{:08x}.json", PROPERTY, gen.name(), seed, session, sig.0 as u32));
    let steps_json: Vec<serde_json::Value> = steps
        .iter()
        .enumerate()
        .map(|(i, (sched, crash, gap, drift, company))| {
            json!({
                "second_instance_running_meanwhile": match company {
                    Some((g, sc, at, kill_at)) => json!({
                        "generator": if *g == 0 { "layout" } else { "likely" },
                        "started_before_file_system_mutation": at,
                        "killed_at_its_own_file_system_mutation": kill_at,
                        "schedule": schedule::to_json(sc, &ctx.image),
                    }),
                    None => json!(null),
                },
                "run": i,
                "judged": i + 1 == steps.len(),
                "clock_gap_ns_since_previous_run": gap,
                "cut_short": crash_json(crash),
                "saw_an_earlier_version_of_the_data": drift.iter().map(drift_json).collect::<Vec<_>>(),
                "schedule": if drift.is_empty() { schedule::to_json(sched, &ctx.image) } else { schedule::to_json(sched, &ctx.image.with_drift(drift)) },
            })
        })
        .collect();
    let j = json!({
        "property": PROPERTY,
        "kind": "session",
        "generator": gen.name(),
        "program": gen.program(),
        "seed": seed,
        "session": session,
        "tier": tier,
        "violation": { "class": v.class, "table": v.table, "signature": v.signature, "detail": v.detail },
        "mtime_seed": mtime_seed,
        "steps": steps_json,
        "minimisation": extra,
        "data_digest": format!("{:016x}", ctx.image.digest),
        "generator_source_digest": format!("{:016x}", ctx.gen_src_digest),
        "replay_cmd": format!("./run.sh C18 --replay {}", path.display()),
    });
    if let Err(e) = std::fs::write(&path, serde_json::to_string_pretty(&j).unwrap() + "\n") {
        harness_error(&format!("cannot write {}: {}", path.display(), e));
    }
    path
}

fn drift_json(d: &world::Drift) -> serde_json::Value {
    match d {
        world::Drift::MissingDir { dir, name } => json!({ "op": "missing_dir", "dir": dir, "name": name }),
        world::Drift::ExtraDir { dir, name, clone_of } => json!({ "op": "extra_dir", "dir": dir, "name": name, "clone_of": clone_of }),
        world::Drift::OtherContent { dir, name, content_of } => json!({ "op": "other_content", "dir": dir, "name": name, "content_of": content_of }),
        world::Drift::MissingLines { file, lines } => json!({ "op": "missing_lines", "file": file, "lines": lines }),
        world::Drift::SwappedValues { file, a, b } => json!({ "op": "swapped_values", "file": file, "a": a, "b": b }),
    }
}

fn drift_from_json(v: &serde_json::Value) -> Result<world::Drift, String> {
    let s = |k: &str| -> Result<String, String> { v[k].as_str().map(|x| x.to_string()).ok_or_else(|| format!("drift without {}", k)) };
    Ok(match v["op"].as_str() {
        Some("missing_dir") => world::Drift::MissingDir { dir: s("dir")?, name: s("name")? },
        Some("extra_dir") => world::Drift::ExtraDir { dir: s("dir")?, name: s("name")?, clone_of: s("clone_of")? },
        Some("other_content") => world::Drift::OtherContent { dir: s("dir")?, name: s("name")?, content_of: s("content_of")? },
        Some("missing_lines") => world::Drift::MissingLines {
            file: s("file")?,
            lines: v["lines"].as_array().map(|a| a.iter().filter_map(|x| x.as_u64()).map(|x| x as u32).collect()).unwrap_or_default(),
        },
        Some("swapped_values") => world::Drift::SwappedValues {
            file: s("file")?,
            a: v["a"].as_u64().unwrap_or(0) as u32,
            b: v["b"].as_u64().unwrap_or(0) as u32,
        },
        o => return Err(format!("unknown drift op {:?}", o)),
    })
}

fn session_steps_from_json(j: &serde_json::Value, image: &FsImage) -> Result<(Vec<sim::ExplicitStep>, u64), String> {
    let mut out = vec![];
    for st in j["steps"].as_array().ok_or("session replay without steps")? {
        let drift: Vec<world::Drift> = match st["saw_an_earlier_version_of_the_data"].as_array() {
            Some(a) => a.iter().map(drift_from_json).collect::<Result<_, _>>()?,
            None => vec![],
        };
        // directory orders of a run on an earlier data version name entries of that version
        let sched = if drift.is_empty() { schedule::from_json(&st["schedule"], image)? } else { schedule::from_json(&st["schedule"], &image.with_drift(&drift))? };
        let company = match &st["second_instance_running_meanwhile"] {
            c if c.is_object() => Some((
                if c["generator"].as_str() == Some("likely") { 1u8 } else { 0u8 },
                schedule::from_json(&c["schedule"], image)?,
                c["started_before_file_system_mutation"].as_u64().unwrap_or(0),
                c["killed_at_its_own_file_system_mutation"].as_u64(),
            )),
            _ => None,
        };
        out.push((sched, crash_from_json(&st["cut_short"]), st["clock_gap_ns_since_previous_run"].as_i64().unwrap_or(0), drift, company));
    }
    if out.is_empty() {
        return Err("session replay with no steps".into());
    }
    Ok((out, j["mtime_seed"].as_u64().unwrap_or(0)))
}

/// Re-execute the sampled runs on a different worker assignment; the event-log digests must agree.
fn determinism_recheck(ctx: &Arc<Ctx>, gen: Gen, seed: u64, samples: &BTreeMap<u64, u64>, threads: u64) -> (u64, u64) {
    let list: Vec<(u64, u64)> = samples.iter().map(|(a, b)| (*a, *b)).collect();
    let list = Arc::new(list);
    let mut handles = vec![];
    for t in 0..threads {
        let ctx = ctx.clone();
        let list = list.clone();
        handles.push(std::thread::spawn(move || {
            let mut bad = 0u64;
            let mut n = 0u64;
            // reversed order and shifted assignment compared with the first pass
            let mut j = list.len() as i64 - 1 - t as i64;
            while j >= 0 {
                let (run, digest) = list[j as usize];
                let r = sim::execute(gen, &ctx.image, sim::random_mode(seed, gen, run), false, false);
                n += 1;
                if r.log_digest != digest {
                    bad += 1;
                }
                j -= threads as i64;
            }
            (n, bad)
        }));
    }
    let mut n = 0;
    let mut bad = 0;
    for h in handles {
        let (a, b) = h.join().unwrap();
        n += a;
        bad += b;
    }
    (n, bad)
}

/// S5: rows of the likely-subtags tables looked up through the real `maximize` on a simulated
/// big-endian machine (the `becheck` crate under Miri for s390x). The table integers spell ASCII
/// little-endian and are turned into subtags by unchecked constructors: whether the bytes those
/// see are well formed depends on the target's byte order as much as on the integers.
struct BeReport {
    status: String,
    rows: u64,
    wrong: u64,
    mismatches: Vec<String>,
    wall_s: f64,
}

/// the simulated machines of S5: (Miri target, what it differs from the host in)
const S5_TARGETS: [(&str, &str); 2] = [("s390x-unknown-linux-gnu", "big-endian"), ("i686-unknown-linux-gnu", "32-bit")];

fn be_check(dir: &Path, stride: u64, target: &str, what: &str) -> BeReport {
    let t0 = Instant::now();
    let mut rep = BeReport {
        status: String::new(),
        rows: 0,
        wrong: 0,
        mismatches: vec![],
        wall_s: 0.0,
    };
    if !dir.join("Cargo.toml").exists() {
        rep.status = format!("skipped: {} not found", dir.display());
        return rep;
    }
    let out = std::process::Command::new("cargo")
        .args(["+nightly", "miri", "run", "--offline", "--quiet", "--target", target, "--"])
        .arg(stride.to_string())
        .current_dir(dir)
        .env_remove("RUSTFLAGS")
        .env_remove("MIRIFLAGS")
        .env("CARGO_NET_OFFLINE", "true")
        // one build directory per target: the two interpreters run at the same time
        .env("CARGO_TARGET_DIR", dir.join("target").join(target))
        .output();
    rep.wall_s = t0.elapsed().as_secs_f64();
    let out = match out {
        Ok(o) => o,
        Err(e) => {
            rep.status = format!("skipped: cannot run cargo miri: {}", e);
            return rep;
        }
    };
    let text = String::from_utf8_lossy(&out.stdout).into_owned();
    let mut summary = None;
    for l in text.lines() {
        if l.starts_with("BE-MISMATCH ") {
            rep.mismatches.push(l.to_string());
        } else if let Some(rest) = l.strip_prefix("BE-ROWS ") {
            summary = Some(rest.to_string());
        }
    }
    match summary {
        Some(s) => {
            for kv in s.split_whitespace() {
                if let Some(v) = kv.strip_prefix("looked_up=") {
                    rep.rows = v.parse().unwrap_or(0);
                }
                if let Some(v) = kv.strip_prefix("wrong=") {
                    rep.wrong = v.parse().unwrap_or(0);
                }
            }
            let emulated = if what == "big-endian" { s.contains("endian=big") } else { s.contains("width=32") };
            rep.status = if emulated { "ok".into() } else { format!("skipped: the interpreter did not emulate a {} target ({})", what, s) };
            if !emulated {
                rep.wrong = 0;
                rep.mismatches.clear();
            }
        }
        None if text.lines().any(|l| l.starts_with("BE-SKIP ")) => {
            rep.status = format!("skipped: {}", text.lines().find(|l| l.starts_with("BE-SKIP ")).unwrap_or("").trim_start_matches("BE-SKIP "));
        }
        None => {
            let err = String::from_utf8_lossy(&out.stderr);
            let why = err.lines().rev().find(|l| !l.trim().is_empty()).unwrap_or("no output").to_string();
            // Miri itself stopping the program (undefined behaviour in the lookup on this target)
            if err.contains("Undefined Behavior") {
                rep.wrong = 1;
                rep.mismatches.push(format!("BE-MISMATCH the interpreter stopped the lookup: {}", err.lines().find(|l| l.contains("Undefined Behavior")).unwrap_or("")));
                rep.status = "ok".into();
            } else {
                rep.status = format!("skipped: {} interpreter run unavailable ({})", what, why.chars().take(160).collect::<String>());
            }
        }
    }
    rep
}

fn be_violations(rep: &BeReport, target: &str, what: &str) -> Vec<Violation> {
    if rep.wrong == 0 {
        return vec![];
    }
    let first = rep.mismatches.first().cloned().unwrap_or_default();
    let table = first.split_whitespace().nth(1).and_then(|t| t.split('[').next()).unwrap_or("-").to_string();
    vec![Violation {
        class: "S5".into(),
        table: table.clone(),
        signature: format!("S5:{}:{}-lookup", table, what),
        detail: format!(
            "on a {} target (Miri, {}) {} of {} looked-up rows do not come back from likelysubtags::maximize as the well-formed subtags the table encodes (the table entries are not what the lookup and its unchecked constructors rely on there); first: {}",
            what, target, rep.wrong, rep.rows, first
        ),
    }]
}

/// Run the repository's real generator binary (built by run.sh without the hook cfg, no seam, real
/// file system, real RandomState) once; returns its stdout, or an error text.
fn real_rerun(bin_dir: &Path, cwd: &Path, gen: Gen) -> Result<String, String> {
    let name = match gen {
        Gen::Layout => "generate_layout",
        Gen::Likely => "generate_likelysubtags",
    };
    let exe = bin_dir.join(name);
    if !exe.exists() {
        return Err(format!("{} not built", exe.display()));
    }
    let started = std::time::SystemTime::now();
    let mut child = std::process::Command::new(&exe)
        .current_dir(cwd)
        .env_clear()
        .stdin(std::process::Stdio::null())
        .stdout(std::process::Stdio::piped())
        .stderr(std::process::Stdio::piped())
        .spawn()
        .map_err(|e| format!("cannot run {}: {}", exe.display(), e))?;
    // a real process is not under the simulator's control: it gets a wall-clock limit (a run takes
    // milliseconds; a generator that deadlocks for real must not hang the check)
    let (mut so, mut se) = (child.stdout.take().unwrap(), child.stderr.take().unwrap());
    let t_out = std::thread::spawn(move || {
        let mut v = vec![];
        let _ = std::io::Read::read_to_end(&mut so, &mut v);
        v
    });
    let t_err = std::thread::spawn(move || {
        let mut v = vec![];
        let _ = std::io::Read::read_to_end(&mut se, &mut v);
        v
    });
    let t0 = Instant::now();
    let limit = std::time::Duration::from_secs(REAL_RUN_LIMIT_S);
    let status = loop {
        match child.try_wait() {
            Ok(Some(st)) => break Some(st),
            Ok(None) if t0.elapsed() > limit => {
                let _ = child.kill();
                let _ = child.wait();
                break None;
            }
            Ok(None) => std::thread::sleep(std::time::Duration::from_millis(10)),
            Err(e) => return Err(format!("waiting for {}: {}", exe.display(), e)),
        }
    };
    let stdout = t_out.join().unwrap_or_default();
    let stderr = t_err.join().unwrap_or_default();
    let Some(status) = status else {
        return Ok(format!("\u{0}REAL-FAILURE no-termination: killed after {} s of wall clock", REAL_RUN_LIMIT_S));
    };
    if !status.success() {
        let err = String::from_utf8_lossy(&stderr);
        return Ok(format!(
            "\u{0}REAL-FAILURE status={:?} {}",
            status.code(),
            err.lines().next().unwrap_or("")
        ));
    }
    let text = String::from_utf8_lossy(&stdout).into_owned();
    if text.trim().is_empty() {
        // a generator that writes the table file itself: its product is that file
        let f = cwd.join(match gen {
            Gen::Layout => "src/layout_table.rs",
            Gen::Likely => "src/likelysubtags/tables.rs",
        });
        let fresh = std::fs::metadata(&f).and_then(|m| m.modified()).map(|t| t >= started).unwrap_or(false);
        if fresh {
            if let Ok(t) = std::fs::read_to_string(&f) {
                return Ok(t);
            }
        }
    }
    Ok(text)
}

fn judge_real(gen: Gen, text: &str, comp: &BTreeMap<String, Val>) -> Vec<Violation> {
    if let Some(f) = text.strip_prefix("\u{0}REAL-FAILURE ") {
        return vec![Violation {
            class: "R1".into(),
            table: "-".into(),
            signature: format!("R1:{}:real-process-{}", gen.name(), if f.starts_with("no-termination") { "no-termination" } else { "failed" }),
            detail: format!("the real {} process did not run to completion: {}", gen.program(), f),
        }];
    }
    oracle::check_output(gen.name(), text, comp)
        .into_iter()
        .map(|mut v| {
            v.detail = format!("real (unsimulated) re-run of {}: {}", gen.program(), v.detail);
            v
        })
        .collect()
}

#[derive(Default)]
struct Known {
    known: Vec<(String, String)>, // (signature, what)
    fixed: Vec<String>,
}

fn load_known(path: &Path) -> Known {
    let mut k = Known::default();
    let Ok(text) = std::fs::read_to_string(path) else { return k };
    let v: serde_json::Value = match serde_json::from_str(&text) {
        Ok(v) => v,
        Err(e) => harness_error(&format!("{}: {}", path.display(), e)),
    };
    if let Some(a) = v["known"].as_array() {
        for e in a {
            if e["property"].as_str() == Some(PROPERTY) {
                if let Some(s) = e["signature"].as_str() {
                    k.known
                        .push((s.to_string(), e["what"].as_str().unwrap_or("").to_string()));
                }
            }
        }
    }
    if let Some(a) = v["fixed"].as_array() {
        for e in a {
            if let Some(s) = e.as_str() {
                k.fixed.push(s.to_string());
            }
        }
    }
    k
}

fn names_of(image: &FsImage, path: &str) -> Vec<String> {
    image
        .dirs
        .get(path)
        .map(|v| v.iter().map(|(n, _)| n.clone()).collect())
        .unwrap_or_default()
}

fn write_replay(
    dir: &Path,
    ctx: &Ctx,
    kind: &str,
    gen: Option<Gen>,
    seed: u64,
    run: Option<u64>,
    tier: &str,
    v: &Violation,
    sched: &[Decision],
    extra: serde_json::Value,
) -> PathBuf {
    std::fs::create_dir_all(dir).ok();
    let mut sig = rng::Fnv::default();
    sig.str(&v.signature);
    let name = match run {
        Some(r) => format!("{}-{}-seed{}-run{}-{:08x}.json", PROPERTY, kind, seed, r, sig.0 as u32),
        None => format!("{}-{}-{:08x}.json", PROPERTY, kind, sig.0 as u32),
    };
    let path = dir.join(name);
    let j = json!({
        "property": PROPERTY,
        "kind": kind,
        "generator": gen.map(|g| g.name()),
        "program": gen.map(|g| g.program()),
        "seed": seed,
        "run": run,
        "tier": tier,
        "violation": {
            "class": v.class, "table": v.table, "signature": v.signature, "detail": v.detail,
        },
        "schedule": schedule::to_json(sched, &ctx.image),
        "minimisation": extra,
        "data_digest": format!("{:016x}", ctx.image.digest),
        "generator_source_digest": format!("{:016x}", ctx.gen_src_digest),
        "replay_cmd": format!("./run.sh C18 --replay {}", path.display()),
    });
    if let Err(e) = std::fs::write(&path, serde_json::to_string_pretty(&j).unwrap() + "\n") {
        harness_error(&format!("cannot write {}: {}", path.display(), e));
    }
    path
}

fn load_static(ctx_image: &Arc<FsImage>) -> Result<(BTreeMap<String, Val>, oracle::Reference), String> {
    let comp = oracle::compiled();
    if oracle::init_packer(ctx_image).fallback {
        println!("NOTE: the library's integer form of subtags is no longer little-endian ASCII; the reference model packs with the library's own conversions");
    }
    let rf = oracle::reference(ctx_image)?;
    Ok((comp, rf))
}

/// The bundled CLDR data cannot be read as CLDR data (invalid JSON, a key that is no language
/// identifier, a locale directory without layout file, ...): then nothing determines the tables,
/// which is a violation of C18 in its own right, reported without running any simulation.
fn data_unreadable_violation(e: &str) -> Violation {
    Violation {
        class: "S1".into(),
        table: "-".into(),
        signature: "S1:-:cldr-data-unreadable".into(),
        detail: format!("the bundled CLDR source data do not determine the tables: {}", e),
    }
}

/// Names and sizes of everything below the repository crate (and of the workspace root's own
/// entries): the simulated programs must never reach the real disk. (Round 11: a `use std::fs`
/// inside an *inline* module of a generator resolved to the real `std` and left a real directory
/// in the repository; the build now shadows `std` in every inline module, and this guard turns
/// whatever other route a future program finds into a harness error instead of silence.)
fn real_tree_digest() -> u64 {
    fn walk(dir: &Path, f: &mut rng::Fnv, depth: u32) {
        let Ok(rd) = std::fs::read_dir(dir) else { return };
        let mut v: Vec<_> = rd.flatten().collect();
        v.sort_by_key(|e| e.file_name());
        for e in v {
            let p = e.path();
            let name = e.file_name().to_string_lossy().into_owned();
            // build output of the baseline test suite and git's own files may change under us
            if depth == 0 && (name == "target" || name == ".git") {
                continue;
            }
            f.str(&name);
            match e.metadata() {
                Ok(m) if m.is_dir() => walk(&p, f, depth + 1),
                Ok(m) => f.u64(m.len()),
                Err(_) => {}
            }
        }
    }
    let mut f = rng::Fnv::default();
    walk(Path::new("/repo"), &mut f, 0);
    f.0
}

fn cmd_check(a: &Args) -> i32 {
    let t0 = Instant::now();
    let tree_before = real_tree_digest();
    let tier = a
        .opts
        .get("tier")
        .cloned()
        .or_else(|| std::env::var("VERIF_TIER").ok())
        .unwrap_or_else(|| "quick".into());
    if tier != "quick" && tier != "thorough" {
        harness_error(&format!("unknown tier {:?}", tier));
    }
    let seed = match a.opts.get("seed") {
        Some(s) => s.parse().unwrap_or_else(|_| harness_error("--seed wants an integer")),
        None => std::env::var("VERIF_SEED")
            .ok()
            .and_then(|s| s.parse::<u64>().ok())
            .unwrap_or(1),
    };
    let threads = opt_u64(
        a,
        "threads",
        std::thread::available_parallelism().map(|n| n.get() as u64).unwrap_or(4),
    )
    .max(1);
    // a forked child per run costs about ten times an in-process run: fewer runs in that mode
    let isolated = isolate::ISOLATE.load(std::sync::atomic::Ordering::Relaxed);
    let layout_runs = opt_u64(a, "runs", match (tier.as_str(), isolated) {
        ("quick", false) => 40_000,
        ("quick", true) => 10_000,
        (_, false) => 3_000_000,
        (_, true) => 400_000,
    });
    let likely_runs = opt_u64(a, "likely-runs", if tier == "quick" { 8 } else { 64 });
    let evidence_path = PathBuf::from(
        a.opts
            .get("evidence")
            .cloned()
            .unwrap_or_else(|| "/verif/evidence/C18.json".into()),
    );
    let replay_dir = PathBuf::from(a.opts.get("replay-dir").cloned().unwrap_or_else(|| "/verif/replays".into()));
    let known = load_known(Path::new(
        &a.opts
            .get("known")
            .cloned()
            .unwrap_or_else(|| "/verif/KNOWN_FINDINGS.json".into()),
    ));

    println!("gensim C18 tier={} VERIF_SEED={} threads={} layout_runs={} likely_runs={}", tier, seed, threads, layout_runs, likely_runs);
    isolate::LIMIT_S.store(run_time_limit(a).as_secs().max(1), std::sync::atomic::Ordering::Relaxed);
    spawn_watchdog(run_time_limit(a), evidence_path.clone(), replay_dir.clone(), tier.clone(), seed, t0);

    let image = match FsImage::load(Path::new(REPO_CRATE)) {
        Ok(i) => Arc::new(i),
        Err(e) => harness_error(&format!("cannot load the data image: {}", e)),
    };
    let (comp, rf) = match load_static(&image) {
        Ok(x) => x,
        Err(e) => {
            let v = data_unreadable_violation(&e);
            let _ = std::fs::create_dir_all(&replay_dir);
            let path = replay_dir.join(format!("{}-static-data-unreadable.json", PROPERTY));
            let j = json!({
                "property": PROPERTY,
                "kind": "static",
                "violation": { "class": v.class, "signature": v.signature, "detail": v.detail },
                "data_digest": format!("{:016x}", image.digest),
            });
            let _ = std::fs::write(&path, serde_json::to_string_pretty(&j).unwrap());
            let ev = json!({
                "property_id": PROPERTY,
                "tier": tier,
                "seed": seed,
                "level": "exploration",
                "wall_s": t0.elapsed().as_secs_f64(),
                "violations": 1,
                "coverage": {
                    "evaluations": 1,
                    "distinct_nontrivial": 0,
                    "rule": "check ended before any simulation: the reference model could not read the bundled CLDR data",
                    "samples": [j.clone()],
                    "exhaustive": false,
                },
            });
            let _ = std::fs::write(&evidence_path, serde_json::to_string_pretty(&ev).unwrap());
            println!("violation: {} — {}", v.signature, v.detail);
            println!("VIOLATION property={} replay={}", PROPERTY, path.display());
            return 1;
        }
    };
    let t1_skipped = match oracle::source_text_agrees(Path::new(REPO_CRATE), &comp) {
        Ok(s) => s,
        Err(e) => harness_error(&format!("T1: {}", e)),
    };
    for s in &t1_skipped {
        println!("NOTE: T1 (source text == compiled statics) skipped for {}; the compiled statics read through the hook are authoritative", s);
    }
    let st = oracle::static_checks(&comp, &rf);
    println!(
        "static: rows={} ints_decoded={} lookups={}/{} found, violations={}",
        st.rows_checked,
        st.ints_decoded,
        st.lookups_found,
        st.lookups,
        st.violations.len()
    );
    for t in &st.unreachable_tables {
        println!("NOTE: no row of {} is reachable through likelysubtags::maximize (not attributed to C18: the lookup, not the table order, is at fault)", t);
    }
    let ctx = Arc::new(build_ctx(&rf, image.clone(), comp));
    // S5 runs in the background while the simulation batches run
    let be_dir = a.opts.get("becheck").map(PathBuf::from);
    let be_stride = opt_u64(a, "be-stride", if tier == "quick" { 400 } else { 24 });
    let be_threads: Vec<_> = S5_TARGETS
        .iter()
        .filter_map(|(target, what)| be_dir.clone().map(|d| std::thread::spawn(move || be_check(&d, be_stride, target, what))))
        .collect();

    // ---- simulation batches
    let sim_ok = gens::AVAILABLE;
    if !sim_ok {
        println!("NOTE: the generator programs could not be compiled into the simulator (they use something the seams do not cover; see gensim/build.first.log): NO simulation batch is run. What is judged: the compiled tables against the independent CLDR re-derivation, the lookup sweeps (S4-S7), and the real generator binaries re-run as ordinary processes (uncontrolled directory and hash order)");
    }
    let (layout_runs, likely_runs) = if sim_ok { (layout_runs, likely_runs) } else { (0, 0) };
    // one run of each program under the all-default schedule on this thread first: settles, before
    // sixteen workers start, whether the programs need the thread scheduler (sim::USE_SHUTTLE)
    for g in [Gen::Layout, Gen::Likely].into_iter().filter(|_| sim_ok) {
        sim::set_label(Some(sim::RunLabel {
            gen: g,
            batch: "default",
            seed,
            run: 0,
        }));
        let _ = sim::execute(g, &ctx.image, sim::replay_mode(&[]), false, false);
        sim::set_label(None);
    }
    if sim_ok {
        sim::prime_output_hints(&ctx.image);
    }
    let stride_layout = (layout_runs / 512).max(1);
    let t_sim = Instant::now();
    // deterministic adjacency-covering family first (seed-independent), then the seeded search
    let n_dir = names_of(&ctx.image, "data/cldr-misc-full/main").len();
    let cover_runs = if a.opts.get("cover").map(|s| s.as_str()) == Some("off") || !sim_ok { 0 } else { world::zigzag_family_size(n_dir) as u64 };
    let secs = |q: u64, t: u64| std::time::Duration::from_secs(opt_u64(a, "budget-s", if tier == "quick" { q } else { t }));
    let cvr = run_batch_of(&ctx, Batch::Cover, Gen::Layout, seed, cover_runs, threads, 64, secs(60, 600));
    // a program that asks for the core count gets the family a second time, on a one-core machine
    let cvr1 = if cvr.stats.cores_asked > 0 {
        run_batch_of(&ctx, Batch::CoverOneCore, Gen::Layout, seed, cover_runs, threads, 64, secs(60, 600))
    } else {
        run_batch_of(&ctx, Batch::CoverOneCore, Gen::Layout, seed, 0, 1, 64, secs(1, 1))
    };
    let lay = run_batch(&ctx, Gen::Layout, seed, layout_runs, threads, stride_layout, secs(150, 3000));
    let mut lik = run_batch(&ctx, Gen::Likely, seed, likely_runs, threads.min(likely_runs.max(1)), 1, secs(60, 600));
    // today's generate_likelysubtags meets no nondeterminism behind a seam (one file, no hash
    // container, no thread): a handful of runs is all there is to explore. The moment it does meet
    // some (a rewritten generator), it gets a seeded search of its own.
    let likely_choice_points = lik.stats.read_dir_calls
        + lik.stats.containers
        + lik.stats.opens
        + lik.stats.sched_choice_points
        + lik.stats.timeouts_offered
        + lik.stats.cores_asked
        + lik.stats.clock_reads;
    let likely_escalated = likely_choice_points > 0 || lik.distinct_logs.len() > 1;
    if likely_escalated && a.opts.get("likely-runs").is_none() {
        let n = opt_u64(a, "likely-nd-runs", if tier == "quick" { 3_000 } else { 300_000 });
        println!("generate_likelysubtags meets nondeterminism behind a seam ({} decision points in {} runs): seeded search over {} runs", likely_choice_points, lik.runs, n);
        lik = run_batch(&ctx, Gen::Likely, seed, n, threads, (n / 256).max(1), secs(90, 1800));
    }
    let sim_wall = t_sim.elapsed().as_secs_f64();
    // ---- crash-restart histories: does anything a cut-short run leaves behind change what the
    // next complete run prints? A program that keeps nothing on disk between runs (today's
    // generators: no file-system mutation, no metadata query) has nothing to leave behind; it gets
    // a token batch that keeps the machinery exercised. A program that writes files, keeps a cache
    // or looks at modification times gets a seeded search over histories.
    let t_sess = Instant::now();
    let mut sess: Vec<(Gen, u64, bool, SessCover)> = vec![];
    for g in [Gen::Layout, Gen::Likely].into_iter().filter(|_| sim_ok) {
        let probe = sim::execute(g, &ctx.image, sim::replay_mode(&[]), false, false);
        let stateful = probe.fs_mutations > 0 || probe.metadata_queries > 0;
        let n = match a.opts.get("sessions") {
            Some(_) => opt_u64(a, "sessions", 0),
            None => match (stateful, tier.as_str()) {
                (true, "quick") => 3_000,
                (true, _) => 200_000,
                (false, "quick") => 96,
                (false, _) => 4_000,
            },
        };
        let c = run_session_batch(&ctx, g, seed, n, threads.min(n.max(1)), probe.crash_points, secs(120, 1800));
        println!(
            "sessions {}: {} histories ({} runs; program {} state on disk: {} fs mutations, {} metadata queries in a default run), cut short: {:?}, earlier runs completed {}, judged runs starting on leftovers {}, distinct leftovers {}, judged-run failures not judged {}, failing {}",
            g.name(),
            c.sessions,
            c.runs,
            if stateful { "keeps" } else { "keeps no" },
            probe.fs_mutations,
            probe.metadata_queries,
            c.crashes,
            c.earlier_runs_completed,
            c.finals_on_leftovers,
            c.distinct_leftovers.len(),
            c.final_failures_not_judged,
            c.failing_total
        );
        if c.requested_not_run > 0 {
            println!("NOTE: sessions {}: {} of the requested histories were not executed (wall-clock budget)", g.name(), c.requested_not_run);
        }
        sess.push((g, probe.crash_points, stateful, c));
    }
    // determinism of the session machinery: re-execute the sampled histories
    let mut sess_recheck = (0u64, 0u64);
    for (g, m0, _stateful, c) in &sess {
        for (i, dg) in &c.sample_digests {
            let (steps, ms) = sim::session_steps(seed, *g, &ctx.image, *i, *m0);
            let r = sim::execute_session(*g, &ctx.image, &steps, ms, false);
            sess_recheck.0 += 1;
            if r.digest() != *dg {
                sess_recheck.1 += 1;
            }
        }
    }
    if sess_recheck.1 > 0 {
        harness_error(&format!("determinism self-check failed: {} of {} re-executed sessions differ", sess_recheck.1, sess_recheck.0));
    }
    let sess_wall = t_sess.elapsed().as_secs_f64();
    // ---- S7: concurrent callers of the lookup (the library compiled under the thread engine)
    let t_conc = Instant::now();
    let conc_state = conc::library_process_state();
    let conc_runs = opt_u64(a, "conc-runs", match (tier.as_str(), conc_state.is_some()) {
        ("quick", false) => 4_000,
        ("quick", true) => 8_000,
        (_, false) => 100_000,
        (_, true) => 1_500_000,
    });
    let conc_rep = conc::run_batch(seed, conc_runs, threads, secs(60, 1800));
    let conc_wall = t_conc.elapsed().as_secs_f64();
    if !conc::BUILT {
        println!("NOTE: the library's sources do not compile inside the simulator (see gensim/build.first.log): the concurrent-callers batch (S7) is skipped");
    }
    println!(
        "concurrent callers (S7): {} runs ({}), {} lookups and direction queries from up to {} caller threads, {} scheduling steps, {} with a choice, {} context switches, {} distinct interleavings over {} workloads, failing runs {}; determinism recheck {} runs, {} mismatches",
        conc_rep.runs,
        match &conc_rep.process_state {
            Some(w) => format!("the library keeps process-wide state — {} — so every run has a forked process of its own", w),
            None => "the library keeps no state between calls: a lookup is one uninterrupted step".to_string(),
        },
        conc_rep.answers,
        conc_rep.max_threads,
        conc_rep.steps,
        conc_rep.choice_points,
        conc_rep.switches,
        conc_rep.distinct_interleavings,
        conc_rep.distinct_workloads,
        conc_rep.failing_runs,
        conc_rep.determinism_rechecked,
        conc_rep.determinism_mismatches
    );
    if conc_rep.requested > conc_rep.runs {
        println!("NOTE: concurrent callers: {} of the requested runs were not executed (wall-clock budget)", conc_rep.requested - conc_rep.runs);
    }
    if conc_rep.determinism_mismatches > 0 {
        harness_error(&format!("determinism self-check failed: {} of {} re-executed concurrent-callers runs differ", conc_rep.determinism_mismatches, conc_rep.determinism_rechecked));
    }
    // ---- fidelity cross-check: the real binaries, run for real (no seam), must print what the
    // simulated programs printed and what the tables hold
    let real_dir = a.opts.get("real-bins").map(PathBuf::from);
    // the real processes run in a scratch copy of the repository (made by run.sh), never in /repo:
    // whatever a generator leaves on disk must not reach the tree the checks are judged on
    let real_cwd = PathBuf::from(a.opts.get("real-cwd").cloned().unwrap_or_else(|| REPO_CRATE.to_string()));
    let real_n = opt_u64(a, "real-runs", match (tier.as_str(), sim_ok) {
        ("quick", true) => 2,
        (_, true) => 12,
        // nothing else executes the generators in this build
        ("quick", false) => 24,
        (_, false) => 400,
    });
    let mut real_done = 0u64;
    let mut real_viol: Vec<(Gen, Violation, String)> = vec![];
    let mut real_note = String::from("not requested");
    if let Some(dir) = &real_dir {
        real_note = String::from("ok");
        'outer: for gen in [Gen::Layout, Gen::Likely] {
            for _ in 0..real_n {
                match real_rerun(dir, &real_cwd, gen) {
                    Ok(text) => {
                        real_done += 1;
                        let vs = judge_real(gen, &text, &ctx.comp);
                        if let Some(v) = vs.into_iter().next() {
                            real_viol.push((gen, v, text));
                            continue 'outer;
                        }
                    }
                    Err(e) => {
                        real_note = format!("skipped: {}", e);
                        break 'outer;
                    }
                }
            }
        }
    }
    println!("real re-runs of the generator binaries (fidelity cross-check): {} done, {} mismatching ({})", real_done, real_viol.len(), real_note);
    let fault_runs = if sim_ok { opt_u64(a, "fault-runs", if tier == "quick" { 6_000 } else { 300_000 }) / if isolated { 6 } else { 1 } } else { 0 };
    let hf_lay = run_fault_batch(&ctx, Gen::Layout, seed, fault_runs, threads, secs(30, 600));
    let hf_lik = run_fault_batch(&ctx, Gen::Likely, seed, if sim_ok { (fault_runs / 100).max(12) } else { 0 }, threads, secs(30, 600));
    for (name, c) in [("covering family", &cvr), ("generate_layout seeded search", &lay), ("generate_likelysubtags seeded search", &lik)] {
        if c.requested_not_run > 0 {
            println!("NOTE: {}: {} of the requested runs were not executed (wall-clock budget of the batch; the program has become expensive to run)", name, c.requested_not_run);
        }
    }
    let (dn_l, dbad_l) = determinism_recheck(&ctx, Gen::Layout, seed, &lay.sample_digests, threads);
    let (dn_k, dbad_k) = determinism_recheck(&ctx, Gen::Likely, seed, &lik.sample_digests, threads.min(4));
    println!(
        "cover: runs={} (adjacency-covering family over {} directory entries): distinct ordered adjacencies read_dir={} of {}, locale-map iteration={}; failing_runs={}",
        cvr.runs,
        n_dir,
        cvr.adj_dir.len(),
        n_dir * n_dir.saturating_sub(1),
        cvr.adj_map.len(),
        cvr.failing_total
    );
    if dbad_l + dbad_k > 0 {
        harness_error(&format!(
            "determinism self-check failed: {} of {} re-executed runs produced a different event log",
            dbad_l + dbad_k,
            dn_l + dn_k
        ));
    }
    println!(
        "layout: runs={} distinct_event_logs={} distinct_dir_orders={} distinct_map_orders={} distinct_outputs={} failing_runs={}",
        lay.runs,
        lay.distinct_logs.len(),
        lay.distinct_dir_orders.len(),
        lay.distinct_iter_orders.len(),
        lay.distinct_outputs.len(),
        lay.failing_total
    );
    println!(
        "likely: runs={} distinct_outputs={} failing_runs={}; determinism recheck {} runs, 0 mismatches; {:.0} runs/s",
        lik.runs,
        lik.distinct_outputs.len(),
        lik.failing_total,
        dn_l + dn_k,
        (lay.runs + lik.runs) as f64 / sim_wall.max(1e-9)
    );
    if world::FOREIGN_THREAD_SEAM_USE.load(std::sync::atomic::Ordering::SeqCst) {
        harness_error("the generator reached a simulator seam from an OS thread the simulator does not own (a thread created around the shadowed std::thread, e.g. through ::std or a dependency): no verdict is given");
    }
    {
        let sum = |m: &BTreeMap<(&'static str, &'static str), u64>, o: &str| -> u64 { m.iter().filter(|((_, x), _)| *x == o).map(|(_, n)| *n).sum() };
        println!(
            "hard-fault exploration (not gating): layout {} runs: fail-stop {}, partial output {}, completed==tables {}, completed!=tables {}; likely: fail-stop {}, completed!=tables {}",
            fault_runs,
            sum(&hf_lay, "fail_stop_nothing_printed"),
            sum(&hf_lay, "failed_after_partial_output"),
            sum(&hf_lay, "completed_output_equals_tables"),
            sum(&hf_lay, "completed_output_differs"),
            sum(&hf_lik, "fail_stop_nothing_printed"),
            sum(&hf_lik, "completed_output_differs"),
        );
    }
    // the seams must actually have been exercised, otherwise silence means nothing
    if layout_runs >= 100 {
        let st = &lay.stats;
        if st.read_dir_calls + st.containers + st.opens + st.whole_file_reads == 0 {
            harness_error("the generator never went through any simulator seam (no read_dir, file read or hash container): the simulation explored nothing");
        }
        // whatever nondeterminism the program is exposed to must actually have been varied
        if (st.read_dir_calls > 0 && st.read_dir_nonsorted == 0) || (st.containers > 0 && st.containers_nonzero_keys == 0) {
            harness_error("a seam was reached but no non-default directory order / hasher key was ever injected");
        }
    }

    let mut bes: Vec<(&str, &str, BeReport)> = vec![];
    for ((target, what), t) in S5_TARGETS.iter().zip(be_threads.into_iter()) {
        let rep = t.join().unwrap_or_else(|_| harness_error("an S5 thread panicked"));
        println!("{} machine (Miri, {}): {} rows looked up, {} wrong ({}, {:.1}s)", what, target, rep.rows, rep.wrong, rep.status, rep.wall_s);
        bes.push((target, what, rep));
    }
    if real_tree_digest() != tree_before {
        harness_error("the repository's working tree changed while the check ran: a simulated program reached the real file system around the seams (or something else is writing to /repo); no verdict is given");
    }
    // ---- collect violations: static first, then per-run (one replay per violation class)
    let mut reported: Vec<(Violation, PathBuf)> = vec![];
    let mut known_lines: Vec<String> = vec![];
    let is_known = |v: &Violation| known.known.iter().find(|(s, _)| *s == v.signature).cloned();
    for v in &st.violations {
        if let Some((_s, what)) = is_known(v) {
            known_lines.push(format!("KNOWN-FINDING: property={} {} ({})", PROPERTY, v.signature, what));
            continue;
        }
        let p = write_replay(&replay_dir, &ctx, "static", None, seed, None, &tier, v, &[], json!(null));
        reported.push((v.clone(), p));
    }
    for (target, what, rep) in &bes {
        for v in be_violations(rep, target, what) {
            if let Some((_s, w)) = is_known(&v) {
                known_lines.push(format!("KNOWN-FINDING: property={} {} ({})", PROPERTY, v.signature, w));
                continue;
            }
            let p = write_replay(&replay_dir, &ctx, "static-be", None, seed, None, &tier, &v, &[], json!({"becheck": be_dir.as_ref().map(|d| d.display().to_string()), "stride": be_stride, "target": target, "what": what}));
            reported.push((v, p));
        }
    }
    let mut classes_done_global: BTreeSet<String> = BTreeSet::new();
    for (batch, gen, cov) in [(Batch::Cover, Gen::Layout, &cvr), (Batch::CoverOneCore, Gen::Layout, &cvr1), (Batch::Random, Gen::Layout, &lay), (Batch::Random, Gen::Likely, &lik)] {
        let mut classes_done: BTreeSet<String> = BTreeSet::new();
        let mut failing: Vec<&(u64, Vec<Violation>)> = cov.failing.iter().collect();
        failing.sort_by_key(|f| f.0);
        for (run, vs) in failing {
            for v in vs {
                let class = sim::violation_class(v);
                let gclass = format!("{}/{}", gen.name(), class);
                if classes_done.contains(&class) || classes_done.len() >= 6 || classes_done_global.contains(&gclass) {
                    continue;
                }
                classes_done.insert(class.clone());
                classes_done_global.insert(gclass);
                if let Some((_s, what)) = is_known(v) {
                    known_lines.push(format!("KNOWN-FINDING: property={} {} ({})", PROPERTY, v.signature, what));
                    continue;
                }
                // re-execute to get the trace, minimise the schedule, write and verify the replay file
                let r = sim::execute(gen, &ctx.image, make_mode(batch, seed, gen, *run), false, false);
                let m = sim::minimise(gen, &ctx.image, &ctx.comp, &r.trace, &class);
                // final violation record as the minimised schedule produces it
                let rr = sim::execute(gen, &ctx.image, sim::replay_mode(&m.schedule), false, false);
                let mut good = vec![];
                let final_v = sim::judge(&rr, &ctx.comp, &mut good)
                    .into_iter()
                    .find(|x| sim::violation_class(x) == class)
                    .unwrap_or_else(|| v.clone());
                let extra = json!({
                    "replays_run": m.tests,
                    "nondefault_decisions_before": m.nondefault_before,
                    "nondefault_decisions_after": m.nondefault_after,
                    "displaced_dir_entries_before": m.moved_before,
                    "displaced_dir_entries_after": m.moved_after,
                    "original_profile": r.profile.map(|p| p.name()),
                    "found_in_batch": format!("{:?}", batch),
                    "failing_runs_in_batch": cov.failing_total,
                });
                let p = write_replay(&replay_dir, &ctx, "run", Some(gen), seed, Some(*run), &tier, &final_v, &m.schedule, extra);
                reported.push((final_v, p));
            }
        }
    }
    for (gen, m0, _stateful, cov) in &sess {
        let mut classes_done: BTreeSet<String> = BTreeSet::new();
        let mut failing: Vec<&(u64, Vec<Violation>)> = cov.failing.iter().collect();
        failing.sort_by_key(|f| f.0);
        for (si, vs) in failing {
            for v in vs {
                let class = sim::violation_class(v);
                let gclass = format!("{}/{}", gen.name(), class);
                // a defect the single-run search already reported needs no history to show
                if classes_done.contains(&class) || classes_done.len() >= 4 || classes_done_global.contains(&gclass) {
                    continue;
                }
                classes_done.insert(class.clone());
                classes_done_global.insert(gclass);
                if let Some((_s, what)) = is_known(v) {
                    known_lines.push(format!("KNOWN-FINDING: property={} {} ({})", PROPERTY, v.signature, what));
                    continue;
                }
                let (steps, ms) = sim::session_steps(seed, *gen, &ctx.image, *si, *m0);
                let res = sim::execute_session(*gen, &ctx.image, &steps, ms, false);
                let explicit = sim::explicit_steps(&steps, &res);
                let before = explicit.len();
                let (min, tests) = sim::minimise_session(*gen, &ctx.image, &ctx.comp, explicit, ms, &class);
                let rr = sim::execute_session(*gen, &ctx.image, &sim::steps_from_explicit(&min), ms, false);
                let mut good = vec![];
                let drifted: Vec<bool> = min.iter().map(|x| !x.3.is_empty()).collect();
                let final_v = sim::judge_session_with(&rr, &drifted, &ctx.comp, &mut good)
                    .into_iter()
                    .find(|x| sim::violation_class(x) == class)
                    .unwrap_or_else(|| v.clone());
                let extra = json!({
                    "replays_run": tests,
                    "runs_in_history_before": before,
                    "runs_in_history_after": min.len(),
                    "failing_sessions_in_batch": cov.failing_total,
                });
                let p = write_session_replay(&replay_dir, &ctx, *gen, seed, *si, &tier, &final_v, &min, ms, extra);
                reported.push((final_v, p));
            }
        }
    }
    // (one defect of the lookup shows in every table: three replay files say enough)
    for (run, v) in conc_rep.failing.iter().take(3) {
        if let Some((_s, what)) = is_known(v) {
            known_lines.push(format!("KNOWN-FINDING: property={} {} ({})", PROPERTY, v.signature, what));
            continue;
        }
        let (final_v, cj) = match conc::minimise(seed, *run, conc_rep.forked, &v.signature) {
            Some(m) => (conc::violation_of(&m.outcome).unwrap_or_else(|| v.clone()), conc::replay_json(&m)),
            None => harness_error(&format!("concurrent-callers run {} does not fail again when re-executed from its explicit schedule: {}", run, v.detail)),
        };
        let p = write_replay(&replay_dir, &ctx, "conc", None, seed, Some(*run), &tier, &final_v, &[], json!({"failing_runs_in_batch": conc_rep.failing_runs}));
        // the workload and the schedule of the run live under "conc" in the file
        let mut j: serde_json::Value = serde_json::from_str(&std::fs::read_to_string(&p).unwrap_or_default()).unwrap_or(json!({}));
        j["conc"] = cj;
        if let Err(e) = std::fs::write(&p, serde_json::to_string_pretty(&j).unwrap() + "\n") {
            harness_error(&format!("cannot write {}: {}", p.display(), e));
        }
        reported.push((final_v, p));
    }
    for (gen, v, _text) in &real_viol {
        // the simulated search normally reports the same defect with an exact replay; a real-run
        // mismatch that simulation did not see is reported on its own (replay = re-run the binary)
        if reported.iter().any(|(rv, _)| sim::violation_class(rv) == sim::violation_class(v)) {
            continue;
        }
        if let Some((_s, what)) = is_known(v) {
            known_lines.push(format!("KNOWN-FINDING: property={} {} ({})", PROPERTY, v.signature, what));
            continue;
        }
        let p = write_replay(&replay_dir, &ctx, "real", Some(*gen), seed, None, &tier, v, &[], json!({"real_bins": real_dir.as_ref().map(|d| d.display().to_string()), "real_cwd": real_cwd.display().to_string()}));
        reported.push((v.clone(), p));
    }
    // verify each replay file in a fresh process
    let mut replay_verified = 0;
    for (_v, p) in &reported {
        let exe = std::env::current_exe().unwrap();
        let out = std::process::Command::new(exe).arg("replay").arg(p).arg("--quiet").arg("1").output();
        match out {
            Ok(o) if o.status.code() == Some(1) => replay_verified += 1,
            Ok(o) => println!(
                "WARNING: replay of {} in a fresh process exited {:?} instead of reproducing the violation",
                p.display(),
                o.status.code()
            ),
            Err(e) => println!("WARNING: could not spawn replay: {}", e),
        }
    }

    // ---- evidence
    let wall = t0.elapsed().as_secs_f64();
    let mut samples = if sim_ok { evidence_samples(&ctx, seed) } else { vec![json!({"note": "no simulated run in this build: the generator programs could not be compiled into the simulator", "real_runs_judged": real_done})] };
    if let Some(cs) = &conc_rep.sample {
        samples.push(cs.clone());
    }
    let pairs_both = lay
        .pair_ab
        .iter()
        .zip(lay.pair_ba.iter())
        .filter(|(a, b)| **a && **b)
        .count();
    let total_runs = lay.runs + lik.runs + cvr.runs + cvr1.runs + sess.iter().map(|(_, _, _, c)| c.runs).sum::<u64>() + if sim_ok { 0 } else { real_done.max(1) };
    let distinct_nontrivial = if !sim_ok {
        0
    } else {
        // distinct seam-level executions (event-log digests) other than the all-default schedule's
        let base_l = sim::execute(Gen::Layout, &ctx.image, sim::replay_mode(&[]), false, false).log_digest;
        let base_k = sim::execute(Gen::Likely, &ctx.image, sim::replay_mode(&[]), false, false).log_digest;
        let mut all_l: HashSet<u64> = lay.distinct_logs.clone();
        all_l.extend(cvr.distinct_logs.iter().copied());
        all_l.iter().filter(|d| **d != base_l).count() + lik.distinct_logs.iter().filter(|d| **d != base_k).count()
    };
    let mut sum = RunStats::default();
    sum.add(&lay.stats);
    sum.add(&lik.stats);
    sum.add(&cvr.stats);
    let mut ev = json!({
        "property_id": PROPERTY,
        "tier": tier,
        "seed": seed,
        "level": "exploration",
        "wall_s": wall,
        "violations": reported.len(),
        "coverage": {
            "evaluations": total_runs,
            "distinct_nontrivial": distinct_nontrivial,
            "generators_compiled_into_the_simulator": sim_ok,
            "rule": if !sim_ok { "DEGRADED BUILD: the generator programs could not be compiled into the simulator, so no simulated run was executed; one evaluation = one real execution of a generator binary as an ordinary process (uncontrolled directory and hash order, no fault injection), judged by the same output oracle. The table-content clauses (S1-S7, S5) were evaluated as always." } else { "one evaluation = one simulated execution of a generator main() (and of every thread it starts) from start to finish — or to the crash point at which a run of a session is cut short — under a seeded schedule (read_dir order, hasher keys and iteration tweak of every HashMap/HashSet, short-read/EINTR plan of every opened file, one read failing with EIO in a sixth of the runs, the output device filling up or one metadata query failing with EIO in an eighth each, short-write/EINTR plan of every output stream, the open-file limit once a program hoards descriptors, and for programs with threads: the task chosen at every scheduling step, deadlines passed, core count); the runs of the crash-restart sessions (earlier runs, second instances, judged runs) are counted too. Two executions are distinct when the digest of their seam-level event log differs (every seam call with its decision and a digest of what it returned or printed); non-trivial = differs from the event log of the all-default schedule (sorted directory, keys (0,0), no tweak)." },
            "samples": samples,
            "exhaustive": false,
            "simulated_runs": { "generate_layout_seeded_search": lay.runs, "generate_layout_adjacency_covering_family": cvr.runs, "generate_likelysubtags": lik.runs },
            "requested_runs_not_executed_wall_clock_budget": { "generate_layout_seeded_search": lay.requested_not_run, "generate_layout_adjacency_covering_family": cvr.requested_not_run, "generate_likelysubtags": lik.requested_not_run },
            "adjacency_covering_family": {
                "note": "deterministic, seed-independent batch: Walecki zigzag decomposition of K_n into Hamiltonian paths, each walked both ways, applied to the read_dir order and (over the keys in canonical order) to the iteration order of every HashMap/HashSet; guarantees every ordered pair (A immediately before B) and every entry first / last",
                "runs": cvr.runs,
                "runs_again_on_a_one_core_machine_only_for_programs_that_ask_for_the_core_count": cvr1.runs,
                "failing_runs_on_a_one_core_machine": cvr1.failing_total,
                "directory_entries": n_dir,
                "ordered_adjacent_pairs_possible": n_dir * n_dir.saturating_sub(1),
                "ordered_adjacent_pairs_seen_in_read_dir_orders": cvr.adj_dir.len(),
                "ordered_adjacent_pairs_seen_in_locale_map_iteration": cvr.adj_map.len(),
                "failing_runs": cvr.failing_total,
            },
            "runs_per_hour": (total_runs as f64 / sim_wall.max(1e-9) * 3600.0) as u64,
            "simulation_wall_s": sim_wall,
            "simulated_time": "n/a: the pinned programs have no clock, timer, sleep or deadline; a rewritten generator that reads a clock gets the simulated one (clock_reads below), and a timed wait times out only by simulator decision or when no other thread can run",
            "threads": threads,
            "seam_events": lay.events + lik.events,
            "faults_and_nondeterminism_fired": {
                "read_dir_calls": sum.read_dir_calls,
                "read_dir_orders_not_sorted": sum.read_dir_nonsorted,
                "containers_created": sum.containers,
                "containers_with_nonzero_hasher_keys": sum.containers_nonzero_keys,
                "iteration_tweaks_applied": sum.tweaks_applied,
                "container_iterations": sum.iterations,
                "whole_file_reads": sum.whole_file_reads,
                "files_opened_as_streams": sum.opens,
                "short_reads": sum.short_reads,
                "eintr": sum.eintr,
                "bytes_read": sum.bytes_read,
                "reads_that_escaped_to_the_real_fs": sum.fs_escapes,
                "runs_executed_under_the_thread_scheduler": sum.shuttle_runs,
                "thread_scheduling_steps": sum.sched_steps,
                "thread_scheduling_choice_points_with_more_than_one_runnable_task": sum.sched_choice_points,
                "context_switches": sum.context_switches,
                "scheduling_deviations_from_the_no_preemption_default": sum.sched_deviations,
                "max_tasks_in_a_run": sum.max_tasks,
                "timed_waits_that_could_have_timed_out": sum.timeouts_offered,
                "timed_waits_timed_out_by_injected_stall": sum.timeouts_fired,
                "timed_waits_timed_out_naturally_nobody_else_runnable": sum.timeouts_natural,
                "available_parallelism_queries": sum.cores_asked,
                "output_stream_short_writes": sum.short_writes,
                "output_stream_eintr": sum.write_eintr,
                "clock_reads": sum.clock_reads,
                "external_programs_asked_for": sum.programs_spawned,
                "external_programs_not_installed_by_decision": sum.programs_missing,
                "parallel_stages_run_on_simulated_workers_rayon_lookalike": sum.parallel_stages,
                "open_file_limit_decisions": sum.fd_limit_decisions,
                "opens_failed_with_emfile": sum.emfile,
                "max_descriptors_open_at_once": sum.max_open_fds,
                "stderr_prints_discarded": sum.stderr_prints,
                "prints_after_process_exit_discarded": sum.prints_after_exit,
                "read_errors_eio_injected_in_gating_runs": sum.read_faults_injected,
                "runs_in_which_the_output_device_filled_up_enospc_in_gating_runs": sum.write_faults_injected,
                "metadata_queries_failed_with_eio_in_gating_runs": sum.stat_faults_injected,
                "thread_creations_failed_with_eagain_in_gating_runs": sum.spawn_faults_injected,
                "panics_of_spawned_threads_that_the_program_survived": sum.thread_panics_survived,
                "hard_io_faults_in_gating_runs": "four kinds, never two in one run: EIO on one seeded read (a sixth of the seeded runs), the output device filling up (ENOSPC, an eighth), EIO on one seeded path-based metadata query (stat; an eighth; 0 injected means the program asks for no metadata, as the pinned generators), EAGAIN on one seeded thread creation (a tenth; 0 injected means the program starts no threads, as the pinned generators). A run that meets one may fail loudly (the pinned generators do: expect(), println!) but may not complete with a different table. Missing files, torn or corrupt content and listing errors stay in the non-gating exploration (DESIGN §4.4)",
            },
            "hard_fault_exploration_not_gating": {
                "note": "separate batch, outcomes counted but never judged: one hard fault per run (EIO / ENOENT on the k-th file read, torn file, flipped bit, error entry in the listing, failing read_dir) on top of the run's ordinary seeded schedule",
                "runs": { "generate_layout": fault_runs, "generate_likelysubtags": (fault_runs / 100).max(12) },
                "generate_layout": fault_json(&hf_lay),
                "generate_likelysubtags": fault_json(&hf_lik),
            },
            "crash_restart_histories": {
                "note": "a session = one to three earlier runs of the generator on one simulated machine, each under its own seeded schedule and most of them cut short at a seeded crash point (process kill: completed writes survive, the write in progress may be torn; power loss: whatever was not fsynced may be old, new, torn or empty, a rename is atomic but not durable), followed by one complete run that is judged: it may fail loudly, it may not complete with a table that differs from the compiled one. The clock moves by a seeded amount between runs (also backwards). A program that keeps nothing on disk gets a token batch only.",
                "wall_s": sess_wall,
                "sessions_reexecuted_for_determinism": sess_recheck.0,
                "session_digest_mismatches": sess_recheck.1,
                "per_generator": sess.iter().map(|(g, m0, stateful, c)| json!({
                    "generator": g.name(),
                    "program_keeps_state_on_disk": stateful,
                    "crash_points_in_a_default_run": m0,
                    "sessions": c.sessions,
                    "runs": c.runs,
                    "requested_sessions_not_executed_wall_clock_budget": c.requested_not_run,
                    "earlier_runs_cut_short": c.crashes,
                    "earlier_runs_that_completed": c.earlier_runs_completed,
                    "writes_torn_by_the_crash": c.torn_writes,
                    "runs_started_after_the_clock_was_stepped_back": c.clock_stepped_back,
                    "runs_with_a_second_instance_planned": c.company_planned,
                    "second_instances_started_before_a_file_system_mutation_of_the_first": c.company_started,
                    "second_instances_that_failed_loudly_not_judged": c.company_failed,
                    "second_instances_killed_half_way_while_the_first_went_on": c.company_killed,
                    "file_system_mutations": c.fs_mutations,
                    "metadata_queries": c.metadata_queries,
                    "crash_points_passed": c.crash_points,
                    "judged_runs_that_started_on_leftovers": c.finals_on_leftovers,
                    "distinct_leftover_disk_states": c.distinct_leftovers.len(),
                    "distinct_sessions_by_digest": c.distinct_sessions.len(),
                    "judged_runs_that_failed_loudly_not_judged": c.final_failures_not_judged,
                    "failing_sessions": c.failing_total,
                })).collect::<Vec<_>>(),
            },
            "profiles": {
                "directory_order": lay.by_dir_kind,
                "hasher_keys": lay.by_hash_kind,
            },
            "reach": {
                "distinct_event_logs_layout": lay.distinct_logs.len(),
                "distinct_directory_orders": lay.distinct_dir_orders.len(),
                "distinct_locale_map_iteration_orders": lay.distinct_iter_orders.len(),
                "distinct_thread_interleavings_layout": lay.distinct_interleavings.len(),
                "distinct_thread_interleavings_likely": lik.distinct_interleavings.len(),
                "distinct_generator_outputs_layout": lay.distinct_outputs.len(),
                "distinct_generator_outputs_likely": lik.distinct_outputs.len(),
                "locales": ctx.locs.len(),
                "locales_enumerated_first_by_read_dir": lay.dir_first.len(),
                "locales_enumerated_last_by_read_dir": lay.dir_last.len(),
                "directory_entries": names_of(&ctx.image, "data/cldr-misc-full/main").len(),
                "stand_out_directory_entries_used_for_biased_placement": ctx.image.special.get("data/cldr-misc-full/main").map(|v| v.len()).unwrap_or(0),
                "locales_iterated_first_out_of_the_map": lay.map_first.len(),
                "locales_iterated_last_out_of_the_map": lay.map_last.len(),
                "same_script_locale_pairs": ctx.pairs.len(),
                "same_script_pairs_seen_in_both_relative_orders": pairs_both,
                "runs_with_a_nondefault_decision": lay.nondefault_runs + lik.nondefault_runs,
                "generator_panics": lay.panics + lik.panics + cvr.panics,
            },
            "output_oracle": {
                "outputs_judged_by_compiling_them_in_place_of_the_checked_in_file": ce::COMPILED.load(std::sync::atomic::Ordering::Relaxed),
                "compile_cache_hits": ce::CACHE_HITS.load(std::sync::atomic::Ordering::Relaxed),
                "outputs_unjudged": ce::UNJUDGED.load(std::sync::atomic::Ordering::Relaxed),
                "t1_source_text_check_skipped_for": t1_skipped,
                "note": "fast path: tolerant item reader; fallback for output that is not plain items (macro DSL, const-fn constructors): scratch copy of the repository with the output in place of the checked-in file, compiled, statics dumped and compared",
            },
            "static_oracle": {
                "S1_rows_compared_with_cldr_reference": st.rows_checked,
                "S3_integers_decoded": st.ints_decoded,
                "S4_rows_looked_up_through_maximize": st.lookups,
                "S4_maximize_calls_in_fresh_processes_table_order_reverse_order_after_neighbouring_misses_and_after_lookups_in_neighbouring_tables": st.lookup_queries,
                "S4_fresh_processes_forked_each_with_another_first_lookup": st.fresh_process_children,
                "S6_character_direction_queries_cold_and_in_two_sweeps": st.direction_queries,
                "S4_rows_found": st.lookups_found,
                "S4_tables_wholly_unreachable_not_gating": st.unreachable_tables,
                "cldr_likely_subtags_keys": rf.key_text.len(),
                "cldr_layout_locales": rf.locales.len(),
                "static_violations": st.violations.len(),
                "reference_packer": if oracle::init_packer(&ctx.image).fallback { "library conversions (own little-endian packer disagrees with the library)" } else { "own little-endian ASCII packer (agrees with the library's conversions on every CLDR subtag)" },
            },
            "other_machines": {
                "note": "S5: rows of the six likely-subtags tables (every k-th, first and last of each) looked up through the real likelysubtags::maximize under Miri for a big-endian target and for a 32-bit target, and compared, as text, with the row decoded by shift and mask; the tables' integers are byte-order- and width-dependent input of the lookup and of unsafe unchecked constructors",
                "stride": be_stride,
                "machines": bes.iter().map(|(target, what, rep)| json!({
                    "target": target, "differs_from_the_host_in": what, "status": rep.status,
                    "rows_looked_up": rep.rows, "rows_wrong": rep.wrong, "wall_s": rep.wall_s,
                })).collect::<Vec<_>>(),
            },
            "concurrent_callers": {
                "note": "S7: the library's own source compiled a second time with the thread engine's sync/thread primitives (every lock, atomic, Once and thread-local of a lookup is a scheduling point), called from 2-4 simulated caller threads under the simulator's seeded scheduler (uniform, sticky, priority with change points); workload (which rows of the six tables and which directions each caller asks for) drawn from the same seed; every answer must be the value stored in the row asked for. The pinned lookup shares no state between callers, so a lookup is one step and only the order of whole calls varies; a lookup with process-wide state gets a forked process per run.",
                "built": conc::BUILT,
                "runs": conc_rep.runs,
                "runs_per_hour": (conc_rep.runs as f64 / conc_wall.max(1e-9) * 3600.0) as u64,
                "library_process_state": conc_rep.process_state,
                "forked_process_per_run": conc_rep.forked,
                "answers_checked": conc_rep.answers,
                "scheduling_steps": conc_rep.steps,
                "scheduling_choice_points_with_more_than_one_runnable_task": conc_rep.choice_points,
                "context_switches": conc_rep.switches,
                "deviations_from_the_no_preemption_default": conc_rep.deviations,
                "distinct_interleavings_digest_of_workload_and_task_sequence": conc_rep.distinct_interleavings,
                "distinct_workloads": conc_rep.distinct_workloads,
                "max_caller_threads": conc_rep.max_threads,
                "scheduler_policies": conc_rep.by_policy,
                "failing_runs": conc_rep.failing_runs,
                "determinism_runs_reexecuted": conc_rep.determinism_rechecked,
                "determinism_mismatches": conc_rep.determinism_mismatches,
                "sample": conc_rep.sample,
            },
            "real_process_reruns": {
                "note": "fidelity cross-check of the simulator: the repository's generator binaries built without the hook and run as real processes (real file system order, real RandomState); their output must equal the compiled tables like every simulated run's",
                "runs": real_done,
                "mismatching": real_viol.len(),
                "status": real_note,
            },
            "process_isolation": {
                "note": "when the generator sources declare process-wide state (static with interior mutability, thread_local!, lazy_static!, static mut) every simulated run is executed in a forked child of the simulator, so that statics start pristine as in a real process and nothing leaks from run to run or between worker threads; a child that exceeds the run time limit is killed and reported as a run that does not terminate",
                "enabled": isolate::ISOLATE.load(std::sync::atomic::Ordering::Relaxed),
                "children_forked": isolate::FORKS.load(std::sync::atomic::Ordering::Relaxed),
                "children_killed_at_the_time_limit": isolate::KILLED.load(std::sync::atomic::Ordering::Relaxed),
            },
            "determinism": {
                "runs_reexecuted_on_another_worker": dn_l + dn_k,
                "event_log_mismatches": dbad_l + dbad_k,
            },
            "components": {
                "real_code": [
                    "unic-langid-impl/src/bin/generate_layout.rs (include!d unmodified from the working tree)",
                    "unic-langid-impl/src/bin/generate_likelysubtags.rs (include!d unmodified)",
                    "unic_langid_impl parser, subtag types, integer conversions, likelysubtags::maximize (path dependency on /repo, built with --cfg unic_locale_verif)",
                    "compiled statics LANG_ONLY..REGION_ONLY, CLDR_VERSION, layout_table constants (read through hook H1)",
                    "serde_json, tinystr, std HashMap/HashSet table implementation (hashbrown) under a seeded SipHash BuildHasher",
                    "S7: unic-langid-impl/src/** (library sources, copied unmodified except that std/core::sync, thread and thread_local! resolve to the thread engine's) called from simulated caller threads",
                ],
                "stubs": [
                    "file system: in-memory image of /repo/unic-langid-impl/data loaded from the working tree at start; read_dir order chosen by the simulator",
                    "RandomState: seeded keys per container + simulator-chosen rotation/reversal of iteration order",
                    "stdout: captured buffer (println!/print! shadow); write() on the stdout handle or a created file: seeded short writes and EINTR; stderr discarded",
                    "File::open streams: simulated short reads and EINTR (unused by today's generators, which read whole files)",
                    "threads and sync primitives (unused by today's generators): shuttle engine (coroutines on the simulator's OS thread) under the simulator's own Scheduler; deadlines of timed waits, available_parallelism() and the clock are simulator decisions",
                    "process: exit()/return from main freeze the captured output; env, args, cwd fixed",
                    "disk that outlives the process (sessions): overlay of written files with modification times, fsync tracking, crash points at every mutation and print, kill / power-loss resolution; unused by today's generators, which write nothing",
                    "metadata, modification times, Path/PathBuf queries (exists, is_file, metadata, read_dir): answered by the simulated file system",
                    "open-file limit: descriptor accounting, EMFILE beyond a seeded ulimit once a program holds 200 descriptors (today's generators hold 2)",
                    "advisory file locks (File::lock/try_lock: inode table shared with a second instance), descriptor-level handles (std::os::fd look-alikes over the simulated stdout, stderr and files), thread creation that may fail with EAGAIN, path-based metadata queries that may fail with EIO: all unused by today's generators",
                ],
            },
            "replays": reported.iter().map(|(v, p)| json!({"signature": v.signature, "file": p.display().to_string()})).collect::<Vec<_>>(),
            "replays_reproduced_in_fresh_process": replay_verified,
            "known_findings_matched": known_lines.len(),
            "data_digest": format!("{:016x}", ctx.image.digest),
            "generator_source_digest": format!("{:016x}", ctx.gen_src_digest),
        },
        "assumptions": [
            "the nondeterminism a maintainer's machine can present to the generators is: directory enumeration order, HashMap/HashSet iteration order, short reads/writes and EINTR on streams, and — for a generator that uses them — thread interleaving at synchronisation points, the core count, the clock and how long other threads are kept off the CPU; hard I/O errors other than the gating ones are out of the property's scope",
            "a run in which an injected stall let a deadline pass, an open failed with the injected EMFILE, one read or one path-based metadata query failed with EIO, the output device filled up (ENOSPC), one thread creation failed with EAGAIN, or — in a session — leftovers of earlier runs were found may fail loudly without being judged; it may not complete with a different table",
            "crash model: a killed process loses nothing the kernel accepted (the write in progress may be torn); after a power loss every change not followed by fsync is old, new, torn or empty independently per path; rename is atomic; directory fsync is not modelled (a rename may be lost, never half done)",
            "earlier data versions differ from the bundled data by missing / extra / exchanged child directories or missing / swapped entry lines, and changed files carry a different modification time; a change that keeps both length and modification time is not generated",
            "any permutation of a directory listing is a legal read_dir order; iteration order of a hash container is a function of its hasher keys, capacity and content, optionally rotated/reversed by the simulator",
            "serde_json's object map is a BTreeMap in this build (no preserve_order), as in the repository's own lock file",
            "the CLDR JSON files under unic-langid-impl/data are the source of truth; the reference reader (own subtag splitter and little-endian packer) and serde_json's JSON parser are trusted",
            "clean batch = evidence over the sampled schedules, not a proof over all 710! directory orders",
        ],
    });
    if let Some(parent) = evidence_path.parent() {
        std::fs::create_dir_all(parent).ok();
    }
    if !sim_ok {
        // a degraded build claims no exploration: level "other" with an explanation
        ev["level"] = json!("other");
        ev["coverage"]["explanation"] = json!("DEGRADED BUILD: the generator programs do not compile behind the simulator's seams, so no deterministic simulation of the generators was possible in this run. Evaluated instead: the compiled tables against the independent CLDR re-derivation (S1-S3, exhaustive), the lookup sweeps S4/S6, the foreign-machine row checks S5, the concurrent-callers simulation S7 of the library (when built), and `evaluations` real executions of the generator binaries as ordinary processes (uncontrolled directory and hash order, no fault injection) judged by the output oracle.");
    }
    if let Err(e) = std::fs::write(&evidence_path, serde_json::to_string_pretty(&ev).unwrap() + "\n") {
        harness_error(&format!("cannot write {}: {}", evidence_path.display(), e));
    }

    for l in &known_lines {
        println!("{}", l);
    }
    for (v, p) in &reported {
        println!("violation: {}", v.detail);
        println!("VIOLATION property={} replay={}", PROPERTY, p.display());
    }
    println!(
        "C18 {}: {} simulated runs, {} distinct non-trivial executions, {} violation(s), {:.1}s",
        tier,
        total_runs,
        distinct_nontrivial,
        reported.len(),
        wall
    );
    if reported.is_empty() {
        let unjudged = ce::UNJUDGED.load(std::sync::atomic::Ordering::Relaxed);
        if unjudged > 0 {
            harness_error(&format!(
                "{} generator output(s) could be judged neither by the item reader nor by compiling them in place of the checked-in file (see the NOTE above): no verdict",
                unjudged
            ));
        }
        0
    } else {
        1
    }
}

fn evidence_samples(ctx: &Ctx, seed: u64) -> Vec<serde_json::Value> {
    let mut out = vec![];
    for (gen, n) in [(Gen::Layout, 4u64), (Gen::Likely, 1u64)] {
        for run in 0..n {
            let r = sim::execute(gen, &ctx.image, sim::random_mode(seed, gen, run), true, false);
            let mut good = vec![];
            let v = sim::judge(&r, &ctx.comp, &mut good);
            let dir_head: Vec<String> = r
                .dir_orders
                .first()
                .map(|(_, n)| n.iter().take(6).cloned().collect())
                .unwrap_or_default();
            let displaced: usize = r
                .trace
                .iter()
                .map(|d| match d {
                    Decision::ReadDir { order, .. } => {
                        let names: Vec<String> = vec![];
                        sim::describe_moves(order, &names).len()
                    }
                    _ => 0,
                })
                .sum();
            let map_head: Vec<String> = r
                .iter_orders
                .iter()
                .find(|x| x.kind == 'M')
                .map(|rec| {
                    rec.ids
                        .iter()
                        .take(6)
                        .map(|i| ctx.id2loc.get(i).cloned().unwrap_or_else(|| format!("{:x}", i)))
                        .collect()
                })
                .unwrap_or_default();
            let containers: Vec<serde_json::Value> = r
                .trace
                .iter()
                .filter_map(|d| match d {
                    Decision::Container { kind, k0, k1, tweak } => Some(json!({
                        "kind": kind.to_string(), "k0": format!("{:016x}", k0), "k1": format!("{:016x}", k1),
                        "tweak": schedule::tweak_str(*tweak),
                    })),
                    _ => None,
                })
                .collect();
            let mut od = rng::Fnv::default();
            od.bytes(r.out.as_bytes());
            out.push(json!({
                "generator": gen.name(),
                "run": run,
                "profile": r.profile.map(|p| p.name()),
                "read_dir_first_entries": dir_head,
                "read_dir_entries_displaced_from_sorted": displaced,
                "containers": containers,
                "locale_map_first_iterated": map_head,
                "seam_events": r.events,
                "event_log_digest": format!("{:016x}", r.log_digest),
                "output_bytes": r.out.len(),
                "output_digest": format!("{:016x}", od.0),
                "verdict": if v.is_empty() { "output == compiled tables".to_string() } else { v[0].signature.clone() },
            }));
        }
    }
    out
}

fn run_time_limit(a: &Args) -> std::time::Duration {
    // a run takes milliseconds; two minutes of wall clock without finishing is a program that
    // does not terminate under that schedule
    std::time::Duration::from_secs(opt_u64(
        a,
        "run-timeout-s",
        std::env::var("GENSIM_RUN_TIMEOUT_S").ok().and_then(|s| s.parse().ok()).unwrap_or(120),
    ))
}

fn hang_violation(l: &sim::RunLabel, secs: u64) -> Violation {
    Violation {
        class: "R1".into(),
        table: "-".into(),
        signature: format!("R1:{}:no-termination", l.gen.name()),
        detail: format!(
            "generator {} did not finish within {} s of wall clock under a legal schedule ({} batch, seed {}, run {}); a run normally takes milliseconds",
            l.gen.program(),
            secs,
            l.batch,
            l.seed,
            l.run
        ),
    }
}

/// A simulated run that never returns (a loop that some schedule does not let end) cannot be
/// interrupted from inside; a monitor thread reports it as what it is — the generator does not
/// terminate under that schedule — with a replay file naming the seeded run, and ends the check.
fn spawn_watchdog(limit: std::time::Duration, evidence: PathBuf, replay_dir: PathBuf, tier: String, seed: u64, t0: Instant) {
    std::thread::spawn(move || loop {
        std::thread::sleep(std::time::Duration::from_millis(500));
        let Some((l, d)) = sim::overdue(limit) else { continue };
        if l.batch == "internal" {
            // a replay inside the minimiser or a sample run: the program hangs under a schedule
            // this thread cannot name
            harness_error(&format!(
                "a simulated run of {} (minimiser / sample / replay) did not finish within {} s",
                l.gen.program(),
                d.as_secs()
            ));
        }
        let v = hang_violation(&l, d.as_secs());
        let _ = std::fs::create_dir_all(&replay_dir);
        let path = replay_dir.join(format!("{}-hang-{}-seed{}-run{}.json", PROPERTY, l.gen.name(), l.seed, l.run));
        let j = json!({
            "property": PROPERTY,
            "kind": "hang",
            "generator": l.gen.name(),
            "batch": l.batch,
            "seed": l.seed,
            "run": l.run,
            "limit_s": limit.as_secs(),
            "violation": { "class": v.class, "signature": v.signature, "detail": v.detail },
            "note": "the run never finished, so its schedule could not be recorded or minimised; replay re-executes the same seeded run under the same time limit",
        });
        let _ = std::fs::write(&path, serde_json::to_string_pretty(&j).unwrap());
        let done = sim::RUNS_DONE.load(std::sync::atomic::Ordering::Relaxed);
        let ev = json!({
            "property_id": PROPERTY,
            "tier": tier,
            "seed": seed,
            "level": "exploration",
            "wall_s": t0.elapsed().as_secs_f64(),
            "violations": 1,
            "coverage": {
                "evaluations": done + 1,
                "distinct_nontrivial": done,
                "rule": "check ended early by the watchdog: one simulated run did not terminate; evaluations = runs completed before that plus the hanging one (distinct_nontrivial: completed runs, each under its own seeded schedule; not de-duplicated because the batch was cut short)",
                "samples": [j.clone()],
                "exhaustive": false,
            },
            "assumptions": ["a simulated run that exceeds the wall-clock limit by four orders of magnitude does not terminate"],
        });
        if let Some(d) = evidence.parent() {
            let _ = std::fs::create_dir_all(d);
        }
        let _ = std::fs::write(&evidence, serde_json::to_string_pretty(&ev).unwrap());
        println!("violation: {} — {}", v.signature, v.detail);
        println!("VIOLATION property={} replay={}", PROPERTY, path.display());
        std::process::exit(1);
    });
}

fn cmd_replay(a: &Args) -> i32 {
    let file = a
        .pos
        .first()
        .cloned()
        .unwrap_or_else(|| harness_error("replay wants a file"));
    let quiet = a.opts.contains_key("quiet");
    let text = std::fs::read_to_string(&file).unwrap_or_else(|e| harness_error(&format!("{}: {}", file, e)));
    let j: serde_json::Value = serde_json::from_str(&text).unwrap_or_else(|e| harness_error(&format!("{}: {}", file, e)));
    let image = match FsImage::load(Path::new(REPO_CRATE)) {
        Ok(i) => Arc::new(i),
        Err(e) => harness_error(&format!("cannot load the data image: {}", e)),
    };
    sim::prime_output_hints(&image);
    let (comp, rf) = match load_static(&image) {
        Ok(x) => x,
        Err(e) => {
            let v = data_unreadable_violation(&e);
            println!("REPRODUCED {}: {}", v.signature, v.detail);
            return 1;
        }
    };
    let want_sig = j["violation"]["signature"].as_str().unwrap_or("").to_string();
    let want_class = {
        let v = Violation {
            class: j["violation"]["class"].as_str().unwrap_or("").to_string(),
            table: String::new(),
            signature: want_sig.clone(),
            detail: String::new(),
        };
        sim::violation_class(&v)
    };
    let found: Vec<Violation> = match j["kind"].as_str() {
        Some("static") => oracle::static_checks(&comp, &rf).violations,
        Some("static-be") => {
            let dir = PathBuf::from(j["minimisation"]["becheck"].as_str().unwrap_or("/verif/becheck"));
            let stride = j["minimisation"]["stride"].as_u64().unwrap_or(400);
            let target = j["minimisation"]["target"].as_str().unwrap_or("s390x-unknown-linux-gnu").to_string();
            let what = j["minimisation"]["what"].as_str().unwrap_or("big-endian").to_string();
            let rep = be_check(&dir, stride, &target, &what);
            if !quiet {
                println!("{} machine: {} rows looked up, {} wrong ({})", what, rep.rows, rep.wrong, rep.status);
            }
            be_violations(&rep, &target, &what)
        }
        Some("conc") => match conc::replay(&j) {
            Ok(v) => v,
            Err(e) => {
                if !quiet {
                    println!("{}", e);
                }
                vec![]
            }
        },
        Some("real") => {
            let gen = Gen::parse(j["generator"].as_str().unwrap_or("")).unwrap_or_else(|| harness_error("replay file: bad generator"));
            let dir = PathBuf::from(j["minimisation"]["real_bins"].as_str().unwrap_or("/verif/gensim/target/realbins/debug"));
            let cwd = PathBuf::from(j["minimisation"]["real_cwd"].as_str().unwrap_or("/verif/gensim/target/realws/unic-langid-impl"));
            // a real process is not under the simulator's control: try a number of times
            let mut found = vec![];
            for _ in 0..32 {
                match real_rerun(&dir, &cwd, gen) {
                    Ok(text) => {
                        found = judge_real(gen, &text, &comp);
                        if !found.is_empty() {
                            break;
                        }
                    }
                    Err(e) => harness_error(&format!("replay: {}", e)),
                }
            }
            found
        }
        Some("hang") => {
            let gen = Gen::parse(j["generator"].as_str().unwrap_or("")).unwrap_or_else(|| harness_error("replay file: bad generator"));
            let (seed, run) = (j["seed"].as_u64().unwrap_or(1), j["run"].as_u64().unwrap_or(0));
            let batch_name = j["batch"].as_str().unwrap_or("random").to_string();
            let batch = match batch_name.as_str() {
                "cover" => Batch::Cover,
                "cover1" => Batch::CoverOneCore,
                _ => Batch::Random,
            };
            let limit = std::time::Duration::from_secs(j["limit_s"].as_u64().unwrap_or(120)).min(run_time_limit(a));
            let (tx, rx) = std::sync::mpsc::channel();
            let img = image.clone();
            std::thread::Builder::new()
                .stack_size(64 << 20)
                .spawn(move || {
                    if batch_name == "session" {
                        let m0 = sim::execute(gen, &img, sim::replay_mode(&[]), false, false).crash_points;
                        let (steps, ms) = sim::session_steps(seed, gen, &img, run, m0);
                        let r = sim::execute_session(gen, &img, &steps, ms, false);
                        let _ = tx.send(r.last().panic.clone());
                        return;
                    }
                    let mode = if batch_name == "default" { sim::replay_mode(&[]) } else { make_mode(batch, seed, gen, run) };
                    let r = sim::execute(gen, &img, mode, false, false);
                    let _ = tx.send(r.panic.clone());
                })
                .unwrap();
            match rx.recv_timeout(limit) {
                Ok(_) => vec![],
                Err(_) => vec![hang_violation(
                    &sim::RunLabel {
                        gen,
                        batch: match batch {
                            Batch::Cover => "cover",
                            Batch::CoverOneCore => "cover1",
                            Batch::Random => "random",
                        },
                        seed,
                        run,
                    },
                    limit.as_secs(),
                )],
            }
        }
        Some("session") => {
            let gen = Gen::parse(j["generator"].as_str().unwrap_or("")).unwrap_or_else(|| harness_error("replay file: bad generator"));
            let (steps, ms) = session_steps_from_json(&j, &image).unwrap_or_else(|e| harness_error(&format!("replay file: {}", e)));
            let res = sim::execute_session(gen, &image, &sim::steps_from_explicit(&steps), ms, false);
            if !quiet {
                for (i, r) in res.runs.iter().enumerate() {
                    println!(
                        "run {}: {} crash points passed, {} fs mutations, {}; left on disk: {:?}",
                        i,
                        r.crash_points,
                        r.fs_mutations,
                        match r.crashed {
                            Some(k) => format!("cut short ({})", k.name()),
                            None => match &r.panic {
                                Some(p) => format!("failed: {}", p.lines().next().unwrap_or("")),
                                None => "completed".to_string(),
                            },
                        },
                        r.disk_after.files.iter().map(|(k, v)| format!("{} ({} bytes)", k, v.len())).collect::<Vec<_>>()
                    );
                    if std::env::var_os("GENSIM_DUMP_DISK").is_some() {
                        for (k, v) in r.disk_after.files.iter() {
                            println!("---- {} after run {}:\n{}", k, i, String::from_utf8_lossy(v));
                        }
                    }
                }
            }
            let mut good = vec![];
            let drifted: Vec<bool> = steps.iter().map(|x| !x.3.is_empty()).collect();
            sim::judge_session_with(&res, &drifted, &comp, &mut good)
        }
        Some("run") => {
            let gen = Gen::parse(j["generator"].as_str().unwrap_or("")).unwrap_or_else(|| harness_error("replay file: bad generator"));
            let sched = schedule::from_json(&j["schedule"], &image).unwrap_or_else(|e| harness_error(&format!("replay file: {}", e)));
            let r = sim::execute(gen, &image, sim::replay_mode(&sched), true, !quiet);
            if !quiet {
                if let Some(l) = &r.verbose_log {
                    println!("event log ({} events, digest {:016x}):", r.events, r.log_digest);
                    for line in l.iter().take(40) {
                        println!("  {}", line);
                    }
                    if l.len() > 40 {
                        println!("  … {} more", l.len() - 40);
                    }
                }
                if r.diverged {
                    println!("note: the program asked for decisions the schedule does not contain (defaults used)");
                }
            }
            let mut good = vec![];
            sim::judge(&r, &comp, &mut good)
        }
        _ => harness_error("replay file: unknown kind"),
    };
    let exact = found.iter().find(|v| v.signature == want_sig);
    let same_class = found.iter().find(|v| sim::violation_class(v) == want_class);
    match exact.or(same_class) {
        Some(v) => {
            println!("REPRODUCED {}: {}", v.signature, v.detail);
            println!("VIOLATION property={} replay={}", PROPERTY, file);
            1
        }
        None => {
            println!(
                "NOT REPRODUCED: the recorded violation {} does not occur on the current tree ({} other violation(s))",
                want_sig,
                found.len()
            );
            for v in found.iter().take(5) {
                println!("  other: {}: {}", v.signature, v.detail);
            }
            0
        }
    }
}

fn cmd_trace(a: &Args) -> i32 {
    let seed = opt_u64(a, "seed", 1);
    let from = opt_u64(a, "from", 0);
    let to = opt_u64(a, "to", 100);
    let threads = opt_u64(a, "threads", 1).max(1);
    let gen = Gen::parse(a.opts.get("gen").map(|s| s.as_str()).unwrap_or("layout")).unwrap_or_else(|| harness_error("bad --gen"));
    let image = match FsImage::load(Path::new(REPO_CRATE)) {
        Ok(i) => Arc::new(i),
        Err(e) => harness_error(&format!("cannot load the data image: {}", e)),
    };
    sim::prime_output_hints(&image);
    if a.opts.contains_key("conc") {
        // S7: one line per concurrent-callers run (digest of schedule and answers)
        let _ = load_static(&image);
        let fork = conc::library_process_state().is_some();
        let mut handles = vec![];
        for t in 0..threads {
            handles.push(std::thread::Builder::new().stack_size(16 << 20).spawn(move || {
                let mut v = vec![];
                let mut i = from + t;
                while i < to {
                    let (wseed, policy, sseed) = conc::run_params(seed, i);
                    let o = conc::execute_isolated(&conc::workload(wseed), policy, sseed, &[], fork);
                    v.push((i, conc::outcome_digest(&o), o.log.picks.len(), o.answers, o.wrong.len()));
                    i += threads;
                }
                v
            }).unwrap());
        }
        let mut all = vec![];
        for h in handles {
            all.extend(h.join().unwrap());
        }
        all.sort();
        for (i, d, steps, answers, wrong) in all {
            println!("seed={} conc run={} steps={} log={:016x} answers={} wrong={}", seed, i, steps, d, answers, wrong);
        }
        return 0;
    }
    if a.opts.contains_key("sessions") {
        // crash-restart histories: one line per session (digest of all event logs and disk states)
        let m0 = sim::execute(gen, &image, sim::replay_mode(&[]), false, false).crash_points;
        let mut handles = vec![];
        for t in 0..threads {
            let image = image.clone();
            handles.push(std::thread::Builder::new().stack_size(64 << 20).spawn(move || {
                let mut v = vec![];
                let mut i = from + t;
                while i < to {
                    let (steps, ms) = sim::session_steps(seed, gen, &image, i, m0);
                    let r = sim::execute_session(gen, &image, &steps, ms, false);
                    let kinds: Vec<String> = r.runs.iter().map(|x| x.crashed.map(|k| k.name().to_string()).unwrap_or_else(|| match &x.panic { Some(p) if std::env::var_os("GENSIM_TRACE_PANICS").is_some() => format!("failed[{}]", p.lines().next().unwrap_or("")), Some(_) => "failed".into(), None => "ok".into() })).collect();
                    let mut od = rng::Fnv::default();
                    od.bytes(r.last().out.as_bytes());
                    v.push((i, r.digest(), kinds.join(","), od.0, r.last().disk_after.digest()));
                    i += threads;
                }
                v
            }).unwrap());
        }
        let mut all = vec![];
        for h in handles {
            all.extend(h.join().unwrap());
        }
        all.sort();
        for (i, d, k, o, dd) in all {
            println!("seed={} gen={} session={} runs={} log={:016x} out={:016x} disk={:016x}", seed, gen.name(), i, k, d, o, dd);
        }
        return 0;
    }
    let mut handles = vec![];
    for t in 0..threads {
        let image = image.clone();
        handles.push(std::thread::spawn(move || {
            let mut v = vec![];
            let mut i = from + t;
            while i < to {
                let r = sim::execute(gen, &image, sim::random_mode(seed, gen, i), false, false);
                let mut od = rng::Fnv::default();
                od.bytes(r.out.as_bytes());
                let faults: Vec<String> = r
                    .trace
                    .iter()
                    .filter_map(|d| match d {
                        Decision::ReadFault { at } => Some(format!("eio@read{}", at)),
                        Decision::WriteFault { at } => Some(format!("enospc@byte{}", at)),
                        Decision::StatFault { at } => Some(format!("eio@stat{}", at)),
                        Decision::SpawnFault { at } => Some(format!("eagain@spawn{}", at)),
                        _ => None,
                    })
                    .collect();
                v.push((i, r.log_digest, r.events, od.0, format!("{} {}", r.panic.is_some(), faults.join(","))));
                i += threads;
            }
            v
        }));
    }
    let mut all = vec![];
    for h in handles {
        all.extend(h.join().unwrap());
    }
    all.sort();
    for (i, d, e, o, p) in all {
        println!("seed={} gen={} run={} events={} log={:016x} out={:016x} panic={}", seed, gen.name(), i, e, d, o, p);
    }
    0
}

fn cmd_show(a: &Args) -> i32 {
    let seed = opt_u64(a, "seed", 1);
    let run = opt_u64(a, "run", 0);
    let gen = Gen::parse(a.opts.get("gen").map(|s| s.as_str()).unwrap_or("layout")).unwrap_or_else(|| harness_error("bad --gen"));
    let image = match FsImage::load(Path::new(REPO_CRATE)) {
        Ok(i) => Arc::new(i),
        Err(e) => harness_error(&format!("cannot load the data image: {}", e)),
    };
    sim::prime_output_hints(&image);
    let (comp, _rf) = load_static(&image).unwrap_or_else(|e| harness_error(&format!("reference model cannot read the CLDR data: {}", e)));
    let r = sim::execute(gen, &image, sim::random_mode(seed, gen, run), true, true);
    println!("profile: {:?}", r.profile.map(|p| p.name()));
    println!("schedule: {}", serde_json::to_string(&schedule::to_json(&r.trace, &image)).unwrap().chars().take(600).collect::<String>());
    if let Some(l) = &r.verbose_log {
        for line in l.iter().take(60) {
            println!("  {}", line);
        }
    }
    println!("panic: {:?}", r.panic);
    println!("output ({} bytes):\n{}", r.out.len(), r.out.chars().take(1200).collect::<String>());
    let mut good = vec![];
    for v in sim::judge(&r, &comp, &mut good) {
        println!("violation: {} — {}", v.signature, v.detail);
    }
    0
}

/// Do the generator programs (and their helper modules) mention threads or synchronisation?
fn generator_uses_threads() -> Option<String> {
    fn walk(dir: &Path, out: &mut Option<String>) {
        let Ok(rd) = std::fs::read_dir(dir) else { return };
        let mut entries: Vec<PathBuf> = rd.flatten().map(|e| e.path()).collect();
        entries.sort();
        for p in entries {
            if out.is_some() {
                return;
            }
            if p.is_dir() {
                walk(&p, out);
            } else if p.extension().map(|e| e == "rs").unwrap_or(false) {
                let Ok(text) = std::fs::read_to_string(&p) else { continue };
                for (n, line) in text.lines().enumerate() {
                    let t = line.trim_start();
                    if t.starts_with("//") {
                        continue;
                    }
                    const TOKENS: [&str; 14] = [
                        "thread::", "std::thread", "sync::", "Mutex", "RwLock", "Condvar", "Barrier", "mpsc", "Atomic", "thread_local!", "rayon", "park(", "unpark(",
                        "LazyLock",
                    ];
                    if let Some(tok) = TOKENS.iter().find(|k| t.contains(**k)) {
                        // `std::sync::Arc` / `OnceLock` alone are plain std (no scheduling point)
                        let only_plain = *tok == "sync::" && !["Mutex", "RwLock", "Condvar", "Barrier", "mpsc", "atomic", "Once", "LazyLock"].iter().any(|k| t.contains(k)) && (t.contains("sync::Arc") || t.contains("sync::OnceLock") || t.contains("sync::Weak"));
                        if !only_plain {
                            *out = Some(format!("{}: line {}: {}", p.strip_prefix("/repo").unwrap_or(&p).display(), n + 1, t.chars().take(80).collect::<String>()));
                            return;
                        }
                    }
                }
            }
        }
    }
    let mut out = None;
    walk(&Path::new(REPO_CRATE).join("src/bin"), &mut out);
    out
}

/// Do the generator programs (and the helper modules next to them) keep state in statics?
fn generator_process_state() -> Option<String> {
    fn walk(dir: &Path, out: &mut Option<String>) {
        let Ok(rd) = std::fs::read_dir(dir) else { return };
        let mut entries: Vec<PathBuf> = rd.flatten().map(|e| e.path()).collect();
        entries.sort();
        for p in entries {
            if out.is_some() {
                return;
            }
            if p.is_dir() {
                walk(&p, out);
            } else if p.extension().map(|e| e == "rs").unwrap_or(false) {
                if let Ok(text) = std::fs::read_to_string(&p) {
                    if let Some(hit) = isolate::declares_process_state(&text) {
                        *out = Some(format!("{}: {}", p.strip_prefix("/repo").unwrap_or(&p).display(), hit));
                    }
                }
            }
        }
    }
    let mut out = None;
    walk(&Path::new(REPO_CRATE).join("src/bin"), &mut out);
    out
}

fn main() {
    // shuttle installs a process-wide panic hook at its first execution; ours goes on top of it
    // (round 16) programs catch panics and go on: the engine must not take the first panic for the
    // end of the execution (vendor/shuttle-engine/README.verif.md)
    sim::survivable_panics();
    sim::prime_shuttle();
    sim::install_panic_hook();
    // A generator that uses threads or synchronisation runs under the thread scheduler from its
    // first run on. (Finding that out by letting the first plain run hit an engine primitive and
    // panic is the fallback only: a program whose destructors take a lock — an end-of-run report
    // in `Drop` — panics a second time during that unwinding, which aborts the process.)
    if let Some(why) = generator_uses_threads() {
        sim::USE_SHUTTLE.store(true, std::sync::atomic::Ordering::SeqCst);
        if std::env::var_os("GENSIM_QUIET_NOTES").is_none() {
            println!("NOTE: the generator programs use threads or synchronisation ({}): every run executes under the thread scheduler", why);
        }
    }
    // A generator that keeps state in statics gets a fresh process per simulated run (isolate.rs)
    match std::env::var("GENSIM_ISOLATE").ok().as_deref() {
        Some("0") => {}
        Some(_) => {
            isolate::ISOLATE.store(true, std::sync::atomic::Ordering::SeqCst);
            println!("NOTE: every simulated run is executed in a forked child process (GENSIM_ISOLATE)");
        }
        None => {
            if let Some(why) = generator_process_state() {
                isolate::ISOLATE.store(true, std::sync::atomic::Ordering::SeqCst);
                println!("NOTE: the generator programs keep process-wide state ({}): every simulated run is executed in a forked child process with pristine statics", why);
            }
        }
    }
    // uninterceptable path queries (Path::exists etc.) then hit the same tree the image was loaded from
    // (file arguments are taken relative to where the command was started)
    let started_in = std::env::current_dir().ok();
    let _ = std::env::set_current_dir(REPO_CRATE);
    let mut a = parse_args();
    if let Some(dir) = &started_in {
        for f in a.pos.iter_mut() {
            if Path::new(f.as_str()).is_relative() && dir.join(f.as_str()).exists() {
                *f = dir.join(f.as_str()).display().to_string();
            }
        }
    }
    let code = match a.cmd.as_str() {
        "check" => cmd_check(&a),
        "replay" => cmd_replay(&a),
        "trace" => cmd_trace(&a),
        "show" => cmd_show(&a),
        "conc" => {
            // one concurrent-callers run, seeded and again from its explicit schedule (debugging aid)
            let image = match FsImage::load(Path::new(REPO_CRATE)) {
                Ok(i) => Arc::new(i),
                Err(e) => harness_error(&format!("cannot load the data image: {}", e)),
            };
            let _ = load_static(&image);
            conc::debug_run(opt_u64(&a, "seed", 1), opt_u64(&a, "run", 0));
            0
        }
        o => harness_error(&format!("unknown command {:?}", o)),
    };
    std::process::exit(code);
}
