//! Unit tests of the text rewriting build.rs applies to the repository's sources.
#![allow(dead_code)]
use std::path::{Component, Path, PathBuf};

include!("rewrite.rs");

fn gen(src: &str) -> String {
    neutralise(src, "layout", Path::new("/repo/unic-langid-impl/src/bin"))
}
fn lib(src: &str) -> String {
    neutralise(src, LIB_HOME, Path::new("/repo/unic-langid-impl/src"))
}

#[test]
fn every_inline_module_gets_the_shadow_on_the_same_line() {
    let out = gen("fn main() {}\nmod journal {\n    use std::fs;\n    pub mod inner { use std::io; }\n}\n");
    assert_eq!(out.lines().count(), 5, "line numbers stay");
    let l2 = out.lines().nth(1).unwrap();
    assert!(l2.starts_with("mod journal { #[allow(unused_imports)] mod std {"), "{}", l2);
    let l4 = out.lines().nth(3).unwrap();
    assert!(l4.contains("pub mod inner { #[allow(unused_imports)] mod std {"), "{}", l4);
    // a file module declaration is left alone
    assert_eq!(gen("mod common;\n"), "mod common;\n");
    // the word in a string, a comment or an identifier is not a module
    let keep = "let s = \"mod x {\"; // mod y {\nlet model = 1; fn f() { modx {} }\n";
    assert_eq!(gen(keep), keep);
}

#[test]
fn the_library_copy_gets_the_library_shadow() {
    let out = lib("mod cache {\n    use std::sync::atomic::AtomicU64;\n}\n");
    assert!(out.starts_with("mod cache { #[allow(unused_imports)] mod std { pub use crate::libsim::lib_std::*; }"), "{}", out);
    assert!(out.contains("mod core { pub use crate::libsim::lib_core::*; }"));
}

#[test]
fn absolute_std_paths_go_through_the_shadow() {
    assert_eq!(gen("let d = ::std::fs::read_dir(p)?;\n"), "let d = std::fs::read_dir(p)?;\n");
    assert_eq!(gen("use ::std::io::Write;\n"), "use std::io::Write;\n");
    // only in the library copy is `core` shadowed
    assert_eq!(gen("::core::mem::swap(a, b);\n"), "::core::mem::swap(a, b);\n");
    assert_eq!(lib("::core::sync::atomic::fence(o);\n"), "core::sync::atomic::fence(o);\n");
    // a path that merely ends in `::std::` of something else, or sits in a string, stays
    assert_eq!(gen("a::std::b();\n"), "a::std::b();\n");
    assert_eq!(gen("let s = \"::std::fs\";\n"), "let s = \"::std::fs\";\n");
}

#[test]
fn crate_paths_are_rehomed_in_code_only() {
    assert_eq!(gen("use crate::common::x;\n"), "use crate::gens::layout::common::x;\n");
    assert_eq!(lib("pub use crate::errors::E;\n"), "pub use crate::libsim::root::errors::E;\n");
    assert_eq!(gen("println!(\"use crate::tables;\");\n"), "println!(\"use crate::tables;\");\n");
    assert_eq!(gen("// crate::x\n"), "// crate::x\n");
    assert_eq!(gen("$crate::m!();\n"), "$crate::gens::layout::m!();\n");
}

#[test]
fn inner_attributes_and_docs_of_a_crate_root_are_neutralised() {
    let out = gen("//! docs\n#![allow(dead_code)]\n#[global_allocator]\nstatic A: X = X;\n");
    assert_eq!(out.lines().count(), 4);
    assert!(out.starts_with("//  docs\n// #![allow(dead_code)]\n#[allow(dead_code)]\n"), "{}", out);
}

#[test]
fn include_paths_become_absolute() {
    assert_eq!(
        gen("const D: &str = include_str!(\"../../data/likelySubtags.json\");\n"),
        "const D: &str = include_str!(\"/repo/unic-langid-impl/data/likelySubtags.json\");\n"
    );
}
