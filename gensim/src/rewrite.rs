// The text rewriting that moving the repository's sources into a module of the simulator forces
// (see build.rs). This file is `include!`d by build.rs and, for its unit tests, by main.rs.

const LIB_HOME: &str = "crate::libsim::root::";
/// (round 15) a third copy of the library, for the generators' own calls into it: compiled behind
/// the generators' full shadow `std` (file system, containers, streams, threads, clock)
const LIBGEN_HOME: &str = "crate::libgen::root::";
const LIB_SHADOW: &str = "#[allow(unused_imports)] mod std { pub use crate::libsim::lib_std::*; } #[allow(unused_imports)] mod core { pub use crate::libsim::lib_core::*; } #[allow(unused_imports, dead_code)] mod once_cell { pub use crate::libsim::lib_once_cell::*; } ";

fn lexical(p: &Path) -> PathBuf {
    let mut out = PathBuf::new();
    for c in p.components() {
        match c {
            Component::CurDir => {}
            Component::ParentDir => {
                out.pop();
            }
            other => out.push(other.as_os_str()),
        }
    }
    out
}

/// `include_str!("rel")` -> `include_str!("/abs/rel")` (string literal paths only)
fn absolutise_includes(line: &str, orig_dir: &Path) -> String {
    let mut out = String::with_capacity(line.len());
    let mut rest = line;
    loop {
        let hit = ["include_str!", "include_bytes!", "include!"]
            .iter()
            .filter_map(|m| rest.find(m).map(|i| (i, *m)))
            .min_by_key(|(i, _)| *i);
        let Some((i, m)) = hit else {
            out.push_str(rest);
            return out;
        };
        let after = &rest[i + m.len()..];
        let t = after.trim_start();
        let ws = after.len() - t.len();
        if let Some(inner) = t.strip_prefix('(') {
            let t2 = inner.trim_start();
            let ws2 = inner.len() - t2.len();
            if let Some(lit) = t2.strip_prefix('"') {
                if let Some(end) = lit.find('"') {
                    let path = &lit[..end];
                    if !path.starts_with('/') && !path.contains('\\') {
                        let abs = lexical(&orig_dir.join(path));
                        out.push_str(&rest[..i + m.len() + ws + 1 + ws2]);
                        out.push('"');
                        out.push_str(&abs.display().to_string());
                        out.push('"');
                        rest = &lit[end + 1..];
                        continue;
                    }
                }
            }
        }
        out.push_str(&rest[..i + m.len()]);
        rest = after;
    }
}

/// `crate::x` -> `crate::gens::<gen>::x`, `$crate::x` likewise — in code only: string literals
/// (the generators print Rust source that may itself say `crate::…`), character literals and
/// comments are copied untouched. Works on the whole file (strings span lines).
fn rehome_crate_paths(src: &str, gen: &str, shadow: &str) -> String {
    // `gen` names a generator module, or — with a leading "crate::" — the full new home
    let target = if gen.starts_with("crate::") { gen.to_string() } else { format!("crate::gens::{}::", gen) };
    let b = src.as_bytes();
    let mut out = String::with_capacity(src.len() + 64);
    let mut i = 0usize;
    let copy_to = |out: &mut String, from: usize, to: usize| out.push_str(&src[from..to]);
    while i < b.len() {
        // line comment
        if b[i] == b'/' && i + 1 < b.len() && b[i + 1] == b'/' {
            let end = src[i..].find('\n').map(|n| i + n).unwrap_or(b.len());
            copy_to(&mut out, i, end);
            i = end;
            continue;
        }
        // block comment (nesting)
        if b[i] == b'/' && i + 1 < b.len() && b[i + 1] == b'*' {
            let mut depth = 0;
            let mut j = i;
            while j < b.len() {
                if b[j] == b'/' && j + 1 < b.len() && b[j + 1] == b'*' {
                    depth += 1;
                    j += 2;
                } else if b[j] == b'*' && j + 1 < b.len() && b[j + 1] == b'/' {
                    depth -= 1;
                    j += 2;
                    if depth == 0 {
                        break;
                    }
                } else {
                    j += 1;
                }
            }
            copy_to(&mut out, i, j.min(b.len()));
            i = j.min(b.len());
            continue;
        }
        // raw string r"…", r#"…"#, br#"…"#
        if (b[i] == b'r' || (b[i] == b'b' && i + 1 < b.len() && b[i + 1] == b'r')) && !(i > 0 && (b[i - 1].is_ascii_alphanumeric() || b[i - 1] == b'_')) {
            let mut j = if b[i] == b'b' { i + 2 } else { i + 1 };
            let mut hashes = 0;
            while j < b.len() && b[j] == b'#' {
                hashes += 1;
                j += 1;
            }
            if j < b.len() && b[j] == b'"' {
                let close = format!("\"{}", "#".repeat(hashes));
                let end = src[j + 1..].find(&close).map(|n| j + 1 + n + close.len()).unwrap_or(b.len());
                copy_to(&mut out, i, end);
                i = end;
                continue;
            }
        }
        // ordinary string "…" (also b"…")
        if b[i] == b'"' {
            let mut j = i + 1;
            while j < b.len() {
                if b[j] == b'\\' {
                    j += 2;
                } else if b[j] == b'"' {
                    j += 1;
                    break;
                } else {
                    j += 1;
                }
            }
            copy_to(&mut out, i, j.min(b.len()));
            i = j.min(b.len());
            continue;
        }
        // character literal (not a lifetime): 'x' or '\n' or '\u{..}'
        if b[i] == b'\'' {
            let rest = &src[i + 1..];
            let lit_len = if rest.starts_with('\\') {
                rest.find('\'').map(|n| n + 1)
            } else {
                let mut it = rest.char_indices();
                match (it.next(), it.next()) {
                    (Some((_, c)), Some((n, '\''))) if c != '\'' => Some(n + 1),
                    _ => None,
                }
            };
            if let Some(n) = lit_len {
                copy_to(&mut out, i, i + 1 + n);
                i += 1 + n;
                continue;
            }
        }
        // (round 12) `::std::fs::read_dir(..)` names the extern crate whatever `std` is in scope:
        // the leading `::` goes, so that the path resolves to the shadow like every other one
        // (macros spell paths this way as a matter of course: control `q5_r1`). In the library
        // copy `::core::` likewise.
        if b[i] == b':' && !(i > 0 && (b[i - 1] == b':' || b[i - 1].is_ascii_alphanumeric() || b[i - 1] == b'_' || b[i - 1] == b'>')) {
            let lib = gen.starts_with("crate::");
            if src[i..].starts_with("::std::") || (lib && src[i..].starts_with("::core::")) {
                i += 2;
                continue;
            }
        }
        if src[i..].starts_with("crate::") {
            let prev_ident = i > 0 && (b[i - 1].is_ascii_alphanumeric() || b[i - 1] == b'_');
            if !prev_ident {
                out.push_str(&target);
                i += "crate::".len();
                continue;
            }
        }
        // (round 11) an *inline* module (`mod journal { use std::fs; … }`): a `use std::…` in there
        // resolves through the extern prelude, not through the shadow `std` of the enclosing
        // module — control `i5_r3` kept its journal in such a module and wrote it to the real
        // disk, shared by all worker threads. Every inline module gets the shadow of its own,
        // right after its opening brace (same line: line numbers stay).
        if src[i..].starts_with("mod") && !(i > 0 && (b[i - 1].is_ascii_alphanumeric() || b[i - 1] == b'_')) {
            let mut j = i + 3;
            let ws1 = j;
            while j < b.len() && (b[j] == b' ' || b[j] == b'\t' || b[j] == b'\n' || b[j] == b'\r') {
                j += 1;
            }
            if j > ws1 {
                let id0 = j;
                while j < b.len() && (b[j].is_ascii_alphanumeric() || b[j] == b'_') {
                    j += 1;
                }
                if j > id0 {
                    while j < b.len() && (b[j] == b' ' || b[j] == b'\t' || b[j] == b'\n' || b[j] == b'\r') {
                        j += 1;
                    }
                    if j < b.len() && b[j] == b'{' {
                        out.push_str(&src[i..=j]);
                        out.push(' ');
                        out.push_str(shadow);
                        i = j + 1;
                        continue;
                    }
                }
            }
        }
        let ch_len = src[i..].chars().next().map(|c| c.len_utf8()).unwrap_or(1);
        out.push_str(&src[i..i + ch_len]);
        i += ch_len;
    }
    out
}

fn neutralise(src: &str, gen: &str, orig_dir: &Path) -> String {
    let shadow = if gen == LIBGEN_HOME {
        SHADOW
    } else if gen.starts_with("crate::") {
        LIB_SHADOW
    } else {
        SHADOW
    };
    let mut out = String::with_capacity(src.len());
    let mut in_block_doc = false;
    for line in src.split_inclusive('\n') {
        let t = line.trim_start();
        let line2: String;
        let line: &str = if t.starts_with("//") {
            line
        } else {
            line2 = absolutise_includes(line, orig_dir);
            &line2
        };
        if in_block_doc {
            // inside a `/*! … */` crate doc block: keep as an ordinary block comment
            if line.contains("*/") {
                in_block_doc = false;
            }
            out.push_str(line);
        } else if t.starts_with("//!") {
            out.push_str(&line.replacen("//!", "// ", 1));
        } else if t.starts_with("/*!") {
            if !t.contains("*/") {
                in_block_doc = true;
            }
            out.push_str(&line.replacen("/*!", "/* ", 1));
        } else if t.starts_with("#[global_allocator]") {
            // a program-wide allocator would become the allocator of the whole simulator process
            // (and, compiled under the shadow `std`, count with atomics that are scheduling points
            // of the thread scheduler — from threads that are not simulated at all): the static
            // stays, as an ordinary one
            out.push_str(&line.replacen("#[global_allocator]", "#[allow(dead_code)]", 1));
        } else if t.starts_with("#![") && t.trim_end().ends_with(']') {
            // single-line inner attribute (lint levels and the like): drop, keep the line
            out.push_str("// ");
            out.push_str(line);
        } else {
            out.push_str(line);
        }
    }
    rehome_crate_paths(&out, gen, shadow)
}

const SHADOW: &str = "#[allow(unused_imports)] mod std { pub use crate::seams::shadow_std::*; pub use crate::seams::shadow_std::env; } #[allow(unused_imports, dead_code)] mod walkdir { pub use crate::seams::shim_walkdir::*; } #[allow(unused_imports, dead_code)] mod rayon { pub use crate::seams::shim_rayon::*; } #[allow(unused_imports)] use crate::seams::{LocalKeyCellExt as _, LocalKeyRefCellExt as _}; #[cfg(all(gens_use_libgen, feature = \"libgen\"))] #[allow(unused_imports, dead_code)] mod unic_langid_impl { pub use crate::libgen::root::*; } ";

