//! A small tolerant reader of what the generators print (and of the checked-in table files):
//! a sequence of `pub (static|const) NAME: TYPE = VALUE;` items and attributes. Whitespace, line
//! breaks, comments, trailing commas and integer suffixes/underscores are ignored, so rustfmt
//! differences never matter.

use std::fmt;

#[derive(Clone, Debug, PartialEq, Eq, PartialOrd, Ord, Hash)]
pub enum Val {
    Int(u128),
    Str(String),
    None,
    Some(Box<Val>),
    Tuple(Vec<Val>),
    Array(Vec<Val>),
}

impl fmt::Display for Val {
    fn fmt(&self, f: &mut fmt::Formatter) -> fmt::Result {
        match self {
            Val::Int(i) => write!(f, "{}", i),
            Val::Str(s) => write!(f, "{:?}", s),
            Val::None => write!(f, "None"),
            Val::Some(v) => write!(f, "Some({})", v),
            Val::Tuple(v) => {
                write!(f, "(")?;
                for (i, x) in v.iter().enumerate() {
                    if i > 0 {
                        write!(f, ", ")?;
                    }
                    write!(f, "{}", x)?;
                }
                write!(f, ")")
            }
            Val::Array(v) => {
                write!(f, "[")?;
                for (i, x) in v.iter().enumerate() {
                    if i > 0 {
                        write!(f, ", ")?;
                    }
                    if i >= 8 {
                        write!(f, "… {} more", v.len() - i)?;
                        break;
                    }
                    write!(f, "{}", x)?;
                }
                write!(f, "]")
            }
        }
    }
}

#[derive(Clone, Debug, PartialEq)]
pub struct Item {
    pub name: String,
    /// "static" or "const"
    pub kind: String,
    /// type tokens joined without whitespace
    pub ty: String,
    /// N of a top-level `[T; N]` type
    pub declared_len: Option<u64>,
    /// N of a top-level `[T; N]` type when it is written as the name of another item
    pub declared_len_name: Option<String>,
    pub value: Val,
}

#[derive(Clone, Debug, PartialEq)]
enum Tok {
    Ident(String),
    Int(u128),
    Str(String),
    P(char),
}

fn lex(src: &str) -> Result<Vec<Tok>, String> {
    let b = src.as_bytes();
    let mut i = 0;
    let mut out = vec![];
    while i < b.len() {
        let c = b[i];
        if c.is_ascii_whitespace() {
            i += 1;
        } else if c == b'/' && i + 1 < b.len() && b[i + 1] == b'/' {
            while i < b.len() && b[i] != b'\n' {
                i += 1;
            }
        } else if c == b'/' && i + 1 < b.len() && b[i + 1] == b'*' {
            i += 2;
            loop {
                if i + 1 >= b.len() {
                    return Err("unterminated block comment".into());
                }
                if b[i] == b'*' && b[i + 1] == b'/' {
                    i += 2;
                    break;
                }
                i += 1;
            }
        } else if c.is_ascii_digit() {
            let st = i;
            while i < b.len() && (b[i].is_ascii_alphanumeric() || b[i] == b'_') {
                i += 1;
            }
            let raw: String = src[st..i].chars().filter(|&c| c != '_').collect();
            // strip an integer type suffix
            let digits_end = raw
                .find(|c: char| !c.is_ascii_digit())
                .unwrap_or(raw.len());
            let (digits, suffix) = raw.split_at(digits_end);
            if raw.starts_with("0x") || raw.starts_with("0b") || raw.starts_with("0o") {
                let (radix, body) = match &raw[..2] {
                    "0x" => (16, &raw[2..]),
                    "0b" => (2, &raw[2..]),
                    _ => (8, &raw[2..]),
                };
                let body_end = body
                    .find(|c: char| !c.is_digit(radix))
                    .unwrap_or(body.len());
                let v = u128::from_str_radix(&body[..body_end], radix)
                    .map_err(|e| format!("bad integer literal {:?}: {}", raw, e))?;
                out.push(Tok::Int(v));
            } else {
                if !(suffix.is_empty()
                    || matches!(
                        suffix,
                        "u8" | "u16" | "u32" | "u64" | "u128" | "usize" | "i8" | "i16" | "i32" | "i64" | "i128" | "isize"
                    ))
                {
                    return Err(format!("bad integer literal {:?}", raw));
                }
                let v: u128 = digits
                    .parse()
                    .map_err(|e| format!("bad integer literal {:?}: {}", raw, e))?;
                out.push(Tok::Int(v));
            }
        } else if c.is_ascii_alphabetic() || c == b'_' {
            let st = i;
            while i < b.len() && (b[i].is_ascii_alphanumeric() || b[i] == b'_') {
                i += 1;
            }
            out.push(Tok::Ident(src[st..i].to_string()));
        } else if c == b'"' {
            i += 1;
            let mut s = String::new();
            loop {
                if i >= b.len() {
                    return Err("unterminated string literal".into());
                }
                match b[i] {
                    b'"' => {
                        i += 1;
                        break;
                    }
                    b'\\' => {
                        i += 1;
                        if i >= b.len() {
                            return Err("unterminated string literal".into());
                        }
                        match b[i] {
                            b'n' => s.push('\n'),
                            b't' => s.push('\t'),
                            b'\\' => s.push('\\'),
                            b'"' => s.push('"'),
                            b'0' => s.push('\0'),
                            o => return Err(format!("unsupported escape \\{}", o as char)),
                        }
                        i += 1;
                    }
                    _ => {
                        // copy one UTF-8 scalar
                        let ch = src[i..].chars().next().unwrap();
                        s.push(ch);
                        i += ch.len_utf8();
                    }
                }
            }
            out.push(Tok::Str(s));
        } else if c.is_ascii() {
            out.push(Tok::P(c as char));
            i += 1;
        } else {
            return Err(format!("unexpected non-ASCII byte 0x{:02x} at offset {}", c, i));
        }
    }
    Ok(out)
}

struct P {
    t: Vec<Tok>,
    i: usize,
}

impl P {
    fn peek(&self) -> Option<&Tok> {
        self.t.get(self.i)
    }
    fn next(&mut self) -> Option<Tok> {
        let t = self.t.get(self.i).cloned();
        self.i += 1;
        t
    }
    fn expect_p(&mut self, c: char) -> Result<(), String> {
        match self.next() {
            Some(Tok::P(x)) if x == c => Ok(()),
            o => Err(format!("expected '{}', found {:?} (token {})", c, o, self.i)),
        }
    }
    fn value(&mut self) -> Result<Val, String> {
        match self.next() {
            Some(Tok::Int(i)) => Ok(Val::Int(i)),
            Some(Tok::Str(s)) => Ok(Val::Str(s)),
            Some(Tok::Ident(id)) if id == "None" => Ok(Val::None),
            Some(Tok::Ident(id)) if id == "Some" => {
                self.expect_p('(')?;
                let v = self.value()?;
                if self.peek() == Some(&Tok::P(',')) {
                    self.i += 1;
                }
                self.expect_p(')')?;
                Ok(Val::Some(Box::new(v)))
            }
            Some(Tok::P('(')) => Ok(Val::Tuple(self.list(')')?)),
            Some(Tok::P('[')) => Ok(Val::Array(self.list(']')?)),
            Some(Tok::P('&')) => self.value(),
            o => Err(format!("unexpected token {:?} in value (token {})", o, self.i)),
        }
    }
    fn list(&mut self, close: char) -> Result<Vec<Val>, String> {
        let mut v = vec![];
        loop {
            if self.peek() == Some(&Tok::P(close)) {
                self.i += 1;
                return Ok(v);
            }
            v.push(self.value()?);
            match self.next() {
                Some(Tok::P(',')) => {}
                Some(Tok::P(c)) if c == close => return Ok(v),
                o => return Err(format!("expected ',' or '{}', found {:?} (token {})", close, o, self.i)),
            }
        }
    }
}

pub fn parse_items(src: &str) -> Result<Vec<Item>, String> {
    let mut p = P { t: lex(src)?, i: 0 };
    let mut items = vec![];
    while let Some(t) = p.peek().cloned() {
        match t {
            Tok::P('#') => {
                p.i += 1;
                if p.peek() == Some(&Tok::P('!')) {
                    p.i += 1;
                }
                p.expect_p('[')?;
                let mut depth = 1;
                while depth > 0 {
                    match p.next() {
                        Some(Tok::P('[')) => depth += 1,
                        Some(Tok::P(']')) => depth -= 1,
                        Some(_) => {}
                        None => return Err("unterminated attribute".into()),
                    }
                }
            }
            Tok::Ident(ref id) if id == "pub" || id == "static" || id == "const" => {
                if id == "pub" {
                    p.i += 1;
                    // pub(crate) etc.
                    if p.peek() == Some(&Tok::P('(')) {
                        while let Some(t) = p.next() {
                            if t == Tok::P(')') {
                                break;
                            }
                        }
                    }
                }
                let kind = match p.next() {
                    Some(Tok::Ident(k)) if k == "static" || k == "const" => k,
                    o => return Err(format!("expected static/const, found {:?}", o)),
                };
                let name = match p.next() {
                    Some(Tok::Ident(n)) => n,
                    o => return Err(format!("expected item name, found {:?}", o)),
                };
                p.expect_p(':')?;
                // type: tokens up to '=' at depth 0
                let mut ty_toks: Vec<Tok> = vec![];
                let mut depth = 0i32;
                loop {
                    match p.next() {
                        Some(Tok::P('=')) if depth == 0 => break,
                        Some(t) => {
                            if let Tok::P(c) = &t {
                                if matches!(c, '(' | '[' | '<') {
                                    depth += 1;
                                }
                                if matches!(c, ')' | ']' | '>') {
                                    depth -= 1;
                                }
                            }
                            ty_toks.push(t);
                        }
                        None => return Err(format!("item {}: no '=' after type", name)),
                    }
                }
                let mut declared_len = None;
                let mut declared_len_name = None;
                let n = ty_toks.len();
                if n >= 4 && ty_toks[0] == Tok::P('[') && ty_toks[n - 1] == Tok::P(']') {
                    if let (Tok::P(';'), Tok::Int(l)) = (&ty_toks[n - 3], &ty_toks[n - 2]) {
                        declared_len = Some(*l as u64);
                    }
                    if let (Tok::P(';'), Tok::Ident(id)) = (&ty_toks[n - 3], &ty_toks[n - 2]) {
                        declared_len_name = Some(id.clone());
                    }
                }
                let ty: String = ty_toks
                    .iter()
                    .map(|t| match t {
                        Tok::Ident(s) => s.clone(),
                        Tok::Int(i) => i.to_string(),
                        Tok::Str(s) => format!("{:?}", s),
                        Tok::P(c) => c.to_string(),
                    })
                    .collect::<Vec<_>>()
                    .join("");
                let value = p.value().map_err(|e| format!("item {}: {}", name, e))?;
                p.expect_p(';').map_err(|e| format!("item {}: {}", name, e))?;
                items.push(Item {
                    name,
                    kind,
                    ty,
                    declared_len,
                    declared_len_name,
                    value,
                });
            }
            // `use …;` and `type … = …;` carry no table content
            Tok::Ident(ref id) if id == "use" || id == "type" => {
                let mut depth = 0i32;
                loop {
                    match p.next() {
                        Some(Tok::P('{')) | Some(Tok::P('(')) | Some(Tok::P('[')) => depth += 1,
                        Some(Tok::P('}')) | Some(Tok::P(')')) | Some(Tok::P(']')) => depth -= 1,
                        Some(Tok::P(';')) if depth <= 0 => break,
                        Some(_) => {}
                        None => return Err(format!("unterminated `{}` item", id)),
                    }
                }
            }
            o => return Err(format!("unexpected token {:?} at top level (token {})", o, p.i)),
        }
    }
    Ok(items)
}

#[cfg(test)]
mod tests {
    use super::*;
    #[test]
    fn basic() {
        let src = r#"#![allow(x)]
        pub static V: &str = "44";
        pub const A: [u32; 3] = [1, 2_0u32,
           3,];
        pub static T: [(u64, (Option<u64>, Option<u32>)); 1] = [(7, (Some(1), None)),];"#;
        let it = parse_items(src).unwrap();
        assert_eq!(it.len(), 3);
        assert_eq!(it[0].value, Val::Str("44".into()));
        assert_eq!(it[1].declared_len, Some(3));
        assert_eq!(it[1].value, Val::Array(vec![Val::Int(1), Val::Int(20), Val::Int(3)]));
        assert_eq!(it[2].declared_len, Some(1));
    }
}
