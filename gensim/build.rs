//! Copies the two generator programs from /repo's working tree into OUT_DIR so that they can be
//! `include!`d inside a module. The only edit is the one `include!` forces: crate-level *inner*
//! doc comments (`//!`, `/*!`) and inner attributes (`#![…]`) at the top of a bin file are legal
//! in a crate root but not in the middle of a module, so they are neutralised in place (same line
//! count, so panic locations keep their line numbers). Everything else is byte-for-byte the
//! repository's source.
use std::path::Path;

fn neutralise(src: &str) -> String {
    let mut out = String::with_capacity(src.len());
    let mut in_block_doc = false;
    for line in src.split_inclusive('\n') {
        let t = line.trim_start();
        if in_block_doc {
            // inside a `/*! … */` crate doc block: keep as an ordinary block comment
            if line.contains("*/") {
                in_block_doc = false;
            }
            out.push_str(line);
        } else if t.starts_with("//!") {
            out.push_str(&line.replacen("//!", "// ", 1));
        } else if t.starts_with("/*!") {
            if !t.contains("*/") {
                in_block_doc = true;
            }
            out.push_str(&line.replacen("/*!", "/* ", 1));
        } else if t.starts_with("#[global_allocator]") {
            // a program-wide allocator would become the allocator of the whole simulator process
            // (and, compiled under the shadow `std`, count with atomics that are scheduling points
            // of the thread scheduler — from threads that are not simulated at all): the static
            // stays, as an ordinary one
            out.push_str(&line.replacen("#[global_allocator]", "#[allow(dead_code)]", 1));
        } else if t.starts_with("#![") && t.trim_end().ends_with(']') {
            // single-line inner attribute (lint levels and the like): drop, keep the line
            out.push_str("// ");
            out.push_str(line);
        } else {
            out.push_str(line);
        }
    }
    out
}

const SHADOW: &str = "#[allow(unused_imports)] mod std { pub use crate::seams::shadow_std::*; pub use crate::seams::shadow_std::env; } #[allow(unused_imports, dead_code)] mod walkdir { pub use crate::seams::shim_walkdir::*; } #[allow(unused_imports, dead_code)] mod rayon { pub use crate::seams::shim_rayon::*; } ";

/// Helper modules next to the generators (`mod common;` -> src/bin/common.rs or
/// src/bin/common/mod.rs): copied alongside, with the same shadow `std` the generator modules get
/// (prepended on the first line, so line numbers stay), so that file I/O, hash containers and
/// threads in a helper are behind the same seams.
fn copy_helpers(from: &Path, to: &Path, top: bool) {
    let Ok(rd) = std::fs::read_dir(from) else { return };
    for e in rd.flatten() {
        let p = e.path();
        let name = e.file_name();
        let n = name.to_string_lossy().to_string();
        if top && (n == "generate_layout.rs" || n == "generate_likelysubtags.rs") {
            continue;
        }
        if p.is_dir() {
            let sub = to.join(&name);
            let _ = std::fs::create_dir_all(&sub);
            copy_helpers(&p, &sub, false);
        } else if n.ends_with(".rs") {
            if let Ok(text) = std::fs::read_to_string(&p) {
                let _ = std::fs::write(to.join(&name), format!("{}{}", SHADOW, neutralise(&text)));
            }
        } else {
            let _ = std::fs::copy(&p, to.join(&name));
        }
    }
}

fn main() {
    let out_dir = std::env::var("OUT_DIR").unwrap();
    let bin = Path::new("/repo/unic-langid-impl/src/bin");
    // the whole directory: helper modules may come and go
    println!("cargo:rerun-if-changed={}", bin.display());
    for name in ["generate_layout.rs", "generate_likelysubtags.rs"] {
        let src = bin.join(name);
        println!("cargo:rerun-if-changed={}", src.display());
        let text = std::fs::read_to_string(&src).unwrap_or_else(|e| panic!("{}: {}", src.display(), e));
        std::fs::write(Path::new(&out_dir).join(name), neutralise(&text)).unwrap();
    }
    copy_helpers(bin, Path::new(&out_dir), true);
    println!("cargo:rerun-if-changed=build.rs");
    // The generators are compiled inside this crate: compile-time crate paths
    // (`env!("CARGO_MANIFEST_DIR")`, also inside `concat!`/`include_str!`) must still name the
    // crate they belong to. The harness itself never uses this variable.
    println!("cargo:rustc-env=CARGO_MANIFEST_DIR=/repo/unic-langid-impl");
}
