//! Copies the two generator programs from /repo's working tree into OUT_DIR so that they can be
//! `include!`d inside a module. The only edit is the one `include!` forces: crate-level *inner*
//! doc comments (`//!`, `/*!`) and inner attributes (`#![…]`) at the top of a bin file are legal
//! in a crate root but not in the middle of a module, so they are neutralised in place (same line
//! count, so panic locations keep their line numbers). Everything else is byte-for-byte the
//! repository's source.
use std::path::Path;

fn neutralise(src: &str) -> String {
    let mut out = String::with_capacity(src.len());
    let mut in_block_doc = false;
    for line in src.split_inclusive('\n') {
        let t = line.trim_start();
        if in_block_doc {
            // inside a `/*! … */` crate doc block: keep as an ordinary block comment
            if line.contains("*/") {
                in_block_doc = false;
            }
            out.push_str(line);
        } else if t.starts_with("//!") {
            out.push_str(&line.replacen("//!", "// ", 1));
        } else if t.starts_with("/*!") {
            if !t.contains("*/") {
                in_block_doc = true;
            }
            out.push_str(&line.replacen("/*!", "/* ", 1));
        } else if t.starts_with("#![") && t.trim_end().ends_with(']') {
            // single-line inner attribute (lint levels and the like): drop, keep the line
            out.push_str("// ");
            out.push_str(line);
        } else {
            out.push_str(line);
        }
    }
    out
}

fn main() {
    let out_dir = std::env::var("OUT_DIR").unwrap();
    for name in ["generate_layout.rs", "generate_likelysubtags.rs"] {
        let src = Path::new("/repo/unic-langid-impl/src/bin").join(name);
        println!("cargo:rerun-if-changed={}", src.display());
        let text = std::fs::read_to_string(&src).unwrap_or_else(|e| panic!("{}: {}", src.display(), e));
        std::fs::write(Path::new(&out_dir).join(name), neutralise(&text)).unwrap();
    }
    println!("cargo:rerun-if-changed=build.rs");
}
