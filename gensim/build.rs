//! Copies the two generator programs (and the helper modules next to them) from /repo's working
//! tree into OUT_DIR so that they can be `include!`d inside a module of the simulator — one copy
//! per generator (`OUT_DIR/layout/…`, `OUT_DIR/likely/…`), because a few things in the text depend
//! on where the code ends up. The edits are the ones that move forces, all in place and preserving
//! line numbers (panic locations keep theirs):
//!
//! * crate-level *inner* doc comments (`//!`, `/*!`) and inner attributes (`#![…]`) at the top of
//!   a bin file are legal in a crate root but not in the middle of a module: neutralised;
//! * `#[global_allocator]` would make the program's allocator the simulator's: neutralised (the
//!   static stays);
//! * `crate::` / `$crate::` name the bin crate's root, which is now the module
//!   `crate::gens::<generator>`: rewritten;
//! * `include_str!("rel")` / `include_bytes!("rel")` resolve relative to the source file, which
//!   has moved: the path is made absolute against the original location;
//! * helper modules get the same shadow `std` (and the look-alike crates) the generator modules
//!   get, prepended on their first line.
//!
//! Everything else is byte-for-byte the repository's source.
use std::path::{Component, Path, PathBuf};

const BIN: &str = "/repo/unic-langid-impl/src/bin";

include!("src/rewrite.rs");

/// Helper modules next to the generators (`mod common;` -> src/bin/common.rs or
/// src/bin/common/mod.rs, `#[path = "support/x.rs"] mod x;`): copied alongside, with the same
/// shadow `std` the generator modules get (prepended on the first line, so line numbers stay), so
/// that file I/O, hash containers and threads in a helper are behind the same seams.
fn copy_helpers(from: &Path, to: &Path, top: bool, gen: &str) {
    let Ok(rd) = std::fs::read_dir(from) else { return };
    for e in rd.flatten() {
        let p = e.path();
        let name = e.file_name();
        let n = name.to_string_lossy().to_string();
        if top && (n == "generate_layout.rs" || n == "generate_likelysubtags.rs") {
            continue;
        }
        if p.is_dir() {
            let sub = to.join(&name);
            let _ = std::fs::create_dir_all(&sub);
            copy_helpers(&p, &sub, false, gen);
        } else if n.ends_with(".rs") {
            if let Ok(text) = std::fs::read_to_string(&p) {
                let _ = std::fs::write(to.join(&name), format!("{}{}", SHADOW, neutralise(&text, gen, from)));
            }
        } else {
            let _ = std::fs::copy(&p, to.join(&name));
        }
    }
}

/// (round 11) A second compilation of the *library* (`unic-langid-impl/src`, without `bin/`) for
/// S7, the concurrent-callers check: the same source files, each with a shadow `std`/`core` in
/// which `sync` (locks, atomics, `Once`, `OnceLock`, `LazyLock`), `thread` and `thread_local!` are
/// the thread engine's, so that every synchronisation operation a lookup performs is a scheduling
/// point of the simulator. Nothing else differs from the real crate (which the rest of the
/// simulator keeps using as a path dependency).
const LIB: &str = "/repo/unic-langid-impl/src";

fn copy_lib(from: &Path, to: &Path, top: bool) {
    let Ok(rd) = std::fs::read_dir(from) else { return };
    for e in rd.flatten() {
        let p = e.path();
        let name = e.file_name();
        let n = name.to_string_lossy().to_string();
        if p.is_dir() {
            if top && n == "bin" {
                continue;
            }
            let sub = to.join(&name);
            let _ = std::fs::create_dir_all(&sub);
            copy_lib(&p, &sub, false);
        } else if n.ends_with(".rs") {
            if let Ok(text) = std::fs::read_to_string(&p) {
                let body = neutralise(&text, LIB_HOME, from);
                // the crate root gets its shadow from the module it is included in
                let text = if top && n == "lib.rs" { body } else { format!("{}{}", LIB_SHADOW, body) };
                let _ = std::fs::write(to.join(&name), text);
            }
        } else {
            let _ = std::fs::copy(&p, to.join(&name));
        }
    }
}

/// (round 15) Does the library itself (not the generator programs) meet the environment — files,
/// streams, hash containers, threads, clock, process? Then the generators' calls into it must go
/// to a copy compiled behind the same seams the generators see (seeded `m63`: the locale walk and
/// the swallowed `open` error moved into a library module); otherwise the real crate is what they
/// call, as always.
fn lib_meets_environment(dir: &Path, top: bool) -> Option<String> {
    const MARKS: [&str; 14] = [
        "std::fs", "fs::File", "File::open", "read_dir", "std::io::Read", "std::io::Write", "io::stdout", "HashMap", "HashSet",
        "std::thread", "thread::spawn", "std::env", "std::time", "std::process",
    ];
    let rd = std::fs::read_dir(dir).ok()?;
    let mut entries: Vec<_> = rd.flatten().collect();
    entries.sort_by_key(|e| e.file_name());
    for e in entries {
        let p = e.path();
        let n = e.file_name().to_string_lossy().to_string();
        if p.is_dir() {
            if top && n == "bin" {
                continue;
            }
            if let Some(w) = lib_meets_environment(&p, false) {
                return Some(w);
            }
        } else if n.ends_with(".rs") {
            if let Ok(text) = std::fs::read_to_string(&p) {
                for (i, line) in text.lines().enumerate() {
                    let t = line.trim_start();
                    if t.starts_with("//") {
                        continue;
                    }
                    if let Some(m) = MARKS.iter().find(|m| line.contains(**m)) {
                        return Some(format!("{} line {}: {}", p.display(), i + 1, m));
                    }
                }
            }
        }
    }
    None
}

fn copy_libgen(from: &Path, to: &Path, top: bool) {
    let Ok(rd) = std::fs::read_dir(from) else { return };
    for e in rd.flatten() {
        let p = e.path();
        let name = e.file_name();
        let n = name.to_string_lossy().to_string();
        if p.is_dir() {
            if top && n == "bin" {
                continue;
            }
            let sub = to.join(&name);
            let _ = std::fs::create_dir_all(&sub);
            copy_libgen(&p, &sub, false);
        } else if n.ends_with(".rs") {
            if let Ok(text) = std::fs::read_to_string(&p) {
                let body = neutralise(&text, LIBGEN_HOME, from);
                let text = if top && n == "lib.rs" { body } else { format!("{}{}", SHADOW, body) };
                let _ = std::fs::write(to.join(&name), text);
            }
        } else {
            let _ = std::fs::copy(&p, to.join(&name));
        }
    }
}

fn main() {
    let out_dir = std::env::var("OUT_DIR").unwrap();
    println!("cargo:rustc-check-cfg=cfg(gens_use_libgen)");
    // the cargo features the repository's generators are built with (`--features binary` implies
    // the optional dependencies serde and serde_json): the copies of the library sources read them
    for f in ["binary", "serde", "serde_json"] {
        println!("cargo:rustc-cfg=feature=\"{}\"", f);
    }
    {
        let dir = Path::new(&out_dir).join("libgen");
        let _ = std::fs::remove_dir_all(&dir);
        std::fs::create_dir_all(&dir).unwrap();
        if let Some(why) = lib_meets_environment(Path::new(LIB), true) {
            copy_libgen(Path::new(LIB), &dir, true);
            println!("cargo:rustc-cfg=gens_use_libgen");
            println!("cargo:rustc-env=GENSIM_LIBGEN_WHY={}", why.replace('\n', " "));
        } else {
            println!("cargo:rustc-env=GENSIM_LIBGEN_WHY=");
        }
    }
    {
        let dir = Path::new(&out_dir).join("libsim");
        let _ = std::fs::remove_dir_all(&dir);
        std::fs::create_dir_all(&dir).unwrap();
        println!("cargo:rerun-if-changed={}", LIB);
        copy_lib(Path::new(LIB), &dir, true);
    }
    let bin = Path::new(BIN);
    // the whole directory: helper modules may come and go
    println!("cargo:rerun-if-changed={}", bin.display());
    // data embedded at compile time (include_str!/include_bytes!) must rebuild the simulator too
    println!("cargo:rerun-if-changed=/repo/unic-langid-impl/data/likelySubtags.json");
    for (gen, name) in [("layout", "generate_layout.rs"), ("likely", "generate_likelysubtags.rs")] {
        let dir = Path::new(&out_dir).join(gen);
        let _ = std::fs::remove_dir_all(&dir);
        std::fs::create_dir_all(&dir).unwrap();
        let src = bin.join(name);
        println!("cargo:rerun-if-changed={}", src.display());
        let text = std::fs::read_to_string(&src).unwrap_or_else(|e| panic!("{}: {}", src.display(), e));
        std::fs::write(dir.join(name), neutralise(&text, gen, bin)).unwrap();
        copy_helpers(bin, &dir, true, gen);
    }
    println!("cargo:rerun-if-changed=build.rs");
    println!("cargo:rerun-if-changed=src/rewrite.rs");
    // The generators are compiled inside this crate: compile-time crate paths
    // (`env!("CARGO_MANIFEST_DIR")`, also inside `concat!`/`include_str!`) must still name the
    // crate they belong to. The harness itself never uses this variable.
    println!("cargo:rustc-env=CARGO_MANIFEST_DIR=/repo/unic-langid-impl");
}
